#!/bin/bash
# usage: tools/sweep.sh <tier> <seed> [ids...]  -- runs the registered checks one after another, prints exit codes
cd /verif
tier=${1:-quick}; seed=${2:-1}; shift; shift
ids="$@"; [ -z "$ids" ] && ids="C01 C02 C03 C04 C05 C06 C07 C08 C09 C10 C11 C12 C13 C14 C15 C16 C17 C18 C19 C20"
mkdir -p out/sweep
for id in $ids; do
  s=$(date +%s)
  VERIF_SEED=$seed bin/vcheck run $id --tier $tier > out/sweep/$id.$tier.$seed.txt 2>&1; rc=$?
  echo "$id tier=$tier seed=$seed rc=$rc secs=$(( $(date +%s)-s )) $(grep -c '^VIOLATION' out/sweep/$id.$tier.$seed.txt) violations $(grep -c '^INCONCLUSIVE' out/sweep/$id.$tier.$seed.txt) inconclusive"
done
