#!/bin/bash
# Re-runs the property's quick check against every seeded change (patch applied to /repo, then restored).
# usage: tools/regress.sh [name-prefix ...]   (default: all)
cd /verif
mkdir -p out/regress
restore() { git -C /repo reset -q --hard HEAD; git -C /repo clean -fdq; }
sel="$@"
for d in /verif/seeded/C*; do
  name=$(basename $d); prop=${name%%-*}
  if [ -n "$sel" ]; then ok=0; for s in $sel; do case $name in $s*) ok=1;; esac; done; [ $ok -eq 1 ] || continue; fi
  [ -f $d/patch.diff ] || continue
  restore
  if ! git -C /repo apply --check $d/patch.diff 2>/dev/null; then
    if ! git -C /repo apply -3 $d/patch.diff >/dev/null 2>&1 || git -C /repo diff --name-only --diff-filter=U | grep -q .; then
      restore; sed -i "/^$name /d" out/regress/summary.txt 2>/dev/null; echo "$name APPLY-FAILED" >> out/regress/summary.txt; continue
    fi
    git -C /repo reset -q
  else
    git -C /repo apply $d/patch.diff
  fi
  checks="$prop"; [ "$name" = "C09-w2m2" ] && checks="C11"
  det=0
  for ck in $checks; do
    timeout 2400 bin/vcheck run $ck > out/regress/$name.txt 2>&1; rc=$?
    [ $rc -eq 1 ] && grep -q "^VIOLATION" out/regress/$name.txt && det=1
  done
  restore
  sed -i "/^$name /d" out/regress/summary.txt 2>/dev/null
  echo "$name detected=$det $(grep -m1 '  sig=\|INCONCL' out/regress/$name.txt | cut -c1-150)" >> out/regress/summary.txt
done
echo "DONE $(date)" >> out/regress/summary.txt
