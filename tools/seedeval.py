#!/usr/bin/env python3
"""Confirms a seeded change in a scratch worktree (builds, existing tests pass, demo fails with / passes
without), then applies it to /repo, runs the property's check and undoes it. Usage:
  seedeval.py <src-dir> <prop> <m> [--tier thorough] [--skip-confirm]
src-dir holds <m>.diff, <m>.json, <m>_demo* ; results are printed as JSON and, when confirmed, the change is
copied to /verif/seeded/<prop>-<m>/ (patch.diff, demo, meta.json)."""
import json, os, re, shutil, subprocess, sys, glob
ENV = dict(os.environ, GOFLAGS="-mod=mod", GOPROXY="off", GOSUMDB="off", GOTOOLCHAIN="local")
def sh(cmd, cwd=None, timeout=1800):
    p = subprocess.run(cmd, shell=True, cwd=cwd, env=ENV, capture_output=True, text=True, timeout=timeout)
    return p.returncode, (p.stdout + p.stderr)
def main():
    src, prop, m = sys.argv[1], sys.argv[2], sys.argv[3]
    tier = "thorough" if "--tier" in sys.argv and "thorough" in sys.argv else "quick"
    skip = "--skip-confirm" in sys.argv
    diff = os.path.join(src, m + ".diff")
    meta = json.load(open(os.path.join(src, m + ".json"))) if os.path.exists(os.path.join(src, m + ".json")) else {}
    demos = sorted(glob.glob(os.path.join(src, m + "_demo*")) + glob.glob(os.path.join(src, m + "_schema*")))
    res = {"property": prop, "mutant": m, "summary": meta.get("summary", ""), "needs": meta.get("needs", "")}
    wt = os.environ.get("SEED_WT", "/tmp/mut/confirm")
    if not skip:
        sh(f"git -C /repo worktree remove --force {wt}"); shutil.rmtree(wt, ignore_errors=True)
        rc, out = sh(f"git -C /repo worktree add -q --detach {wt} HEAD")
        rc, out = sh(f"git apply {diff}", cwd=wt)
        if rc != 0:
            rc, out = sh(f"git apply -3 {diff}", cwd=wt)
            res["applied_with_3way"] = True
        if rc != 0 or "<<<<<<<" in sh("git diff", cwd=wt)[1]:
            res["confirm"] = "diff does not apply: " + out[:300]; print(json.dumps(res)); return 2
        touched = sh("git diff --name-only", cwd=wt)[1].split()
        mods = {"."}
        for t in touched:
            if t.startswith("internal/cmd/tlgen/"): mods.add("internal/cmd/tlgen")
            if t.startswith("telegram/deeplinks/"): mods.add("telegram/deeplinks")
        ok = True; log = []
        for md in sorted(mods):
            rc1, o1 = sh("go build ./... && go build -tags verif ./...", cwd=os.path.join(wt, md))
            rc2, o2 = sh("go test -vet=off -count=1 ./...", cwd=os.path.join(wt, md))
            log.append(f"{md}: build rc={rc1} tests rc={rc2}")
            if rc1 != 0 or rc2 != 0:
                ok = False; log.append((o1 + o2)[-600:])
        res["build_and_existing_tests"] = log
        # demo
        demo = [d for d in demos if d.endswith("_test.go") or d.endswith(".sh")]
        if not demo:
            res["confirm"] = "no demo"; ok = False
        else:
            d = demo[0]
            head = open(d).read(3000)
            if d.endswith(".sh"):
                for extra in demos:
                    shutil.copy(extra, wt)
                run = f"bash {os.path.basename(d)} {wt}"
                rcw, ow = sh(run, cwd=wt, timeout=900)
                sh("git checkout -- . ", cwd=wt)
                rco, oo = sh(run, cwd=wt, timeout=900)
            else:
                mdir = re.search(r"(?:into|in|Place:)\s+(?:<worktree>/)?([A-Za-z0-9_/\.]+?)/?(?:\s|$|\()", head)
                rootpkg = "ROOT" in head.split("package")[0]
                pkgdir = "."
                cand = re.findall(r"(internal/[a-z_/]+|telegram/internal/srp|telegram/deeplinks|telegram)(?=[/ \n(])", head.split("package")[0])
                if not rootpkg and cand:
                    pkgdir = cand[0].rstrip("/")
                name = prop.lower() + "_" + m + "_demo_test.go"
                shutil.copy(d, os.path.join(wt, pkgdir, name))
                runm = re.search(r"-run\s+'?([A-Za-z0-9_$]+)'?", head)
                pat = runm.group(1) if runm else "Test"
                tags = "-tags verif" if "-tags verif" in head else ""
                race = "-race" if " -race" in head else ""
                run = f"go test -vet=off -count=1 {tags} {race} -run '{pat}' ."
                rcw, ow = sh(run, cwd=os.path.join(wt, pkgdir), timeout=900)
                sh("git checkout -- . && git clean -fdq", cwd=wt)  # also files the change added; the stash (shared by all worktrees) is never used
                shutil.copy(d, os.path.join(wt, pkgdir, name))
                rco, oo = sh(run, cwd=os.path.join(wt, pkgdir), timeout=900)
            res["demo_with_change"] = "FAIL" if rcw != 0 else "pass"
            res["demo_without_change"] = "pass" if rco == 0 else "FAIL"
            if rcw == 0 or rco != 0:
                ok = False; res["demo_output"] = (ow[-500:] + "\n---\n" + oo[-500:])
        res["confirmed"] = ok
        sh(f"git -C /repo worktree remove --force {wt}"); shutil.rmtree(wt, ignore_errors=True)
        if not ok:
            print(json.dumps(res, indent=1)); return 3
        if "--confirm-only" in sys.argv:
            print(json.dumps(res, indent=1)); return 0
    # run the check against /repo with the change applied
    rc, out = sh(f"git -C /repo apply {diff}")
    if rc != 0:
        rc, out = sh(f"git -C /repo apply -3 {diff}")
        if rc == 0:
            sh("git -C /repo reset -q")
    if rc != 0:
        res["check"] = "diff does not apply to /repo: " + out[:200]; print(json.dumps(res, indent=1)); return 2
    try:
        rcc, outc = sh(f"VERIF_TIER={tier} bin/vcheck run {prop} --tier {tier}", cwd="/verif", timeout=3600)
    finally:
        sh("git -C /repo checkout -- . && git -C /repo clean -fdq")
    viol = [l for l in outc.splitlines() if l.startswith("VIOLATION")]
    sigs = [l.strip()[:260] for l in outc.splitlines() if l.startswith("  sig=")]
    res["check_exit"] = rcc; res["check_tier"] = tier; res["detected"] = rcc == 1 and bool(viol)
    res["signatures"] = sigs[:4]
    res["summary_line"] = [l for l in outc.splitlines() if l.startswith("SUMMARY") or l.startswith("INCONCLUSIVE")][:2]
    if not skip or True:
        wave = os.environ.get("SEED_WAVE", "")
        dst = f"/verif/seeded/{prop}-{wave}{m}"
        os.makedirs(dst, exist_ok=True)
        shutil.copy(diff, os.path.join(dst, "patch.diff"))
        for d in demos: shutil.copy(d, dst)
        json.dump({"property": prop, "breaks": meta.get("summary", ""), "needs_to_manifest": meta.get("needs", ""),
                   "author_ran": meta.get("ran", ""), "confirmed_by_me": res.get("build_and_existing_tests", "skipped") , "demo_with_change": res.get("demo_with_change"), "demo_without_change": res.get("demo_without_change"),
                   "check_run": f"git -C /repo apply patch.diff; bin/vcheck run {prop} --tier {tier}; git -C /repo checkout -- .", "check_exit": rcc, "detected": res["detected"], "signatures": sigs[:4]},
                  open(os.path.join(dst, "meta.json"), "w"), indent=1)
    print(json.dumps(res, indent=1)); return 0
sys.exit(main())
