#!/usr/bin/env python3
"""Appends 'fixed:' lines to known_findings.json for every fix: commit in /repo not listed yet."""
import json,subprocess,sys
log=subprocess.run(["git","-C","/repo","log","--format=%h %s"],capture_output=True,text=True).stdout.splitlines()
kf=json.load(open('/verif/known_findings.json'))
have=set(x.split()[2] for x in kf["fixed"])
prop=sys.argv[1] if len(sys.argv)>1 else "?"
for l in reversed(log):
    h,msg=l.split(' ',1)
    if msg.startswith("fix:") and h not in have:
        kf["fixed"].append(f"fixed: property={prop} {h} {msg[4:].strip()}")
        print(kf["fixed"][-1])
json.dump(kf,open('/verif/known_findings.json','w'),indent=1)
