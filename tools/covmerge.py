#!/usr/bin/env python3
"""Merges out/run/*/cover.txt (written by VERIF_COVER=1 runs) into out/cover_all.txt and lists, per hand-written
/repo file, the statement blocks no workload of any property executed. Usage: tools/covmerge.py [file-substring]"""
import glob, sys, collections, re
blocks = collections.OrderedDict()
for f in sorted(glob.glob('/verif/out/run/*/cover.txt')):
    for ln in open(f):
        if ln.startswith('mode:'): continue
        m = re.match(r'(.*) (\d+) (\d+)$', ln.strip())
        if not m: continue
        k = (m.group(1), int(m.group(2)))
        blocks[k] = blocks.get(k, 0) + int(m.group(3))
with open('/verif/out/cover_all.txt', 'w') as o:
    o.write('mode: atomic\n')
    for (b, n), c in blocks.items():
        o.write(f'{b} {n} {c}\n')
sub = sys.argv[1] if len(sys.argv) > 1 else ''
per = collections.defaultdict(list); tot = collections.Counter(); hit = collections.Counter()
for (b, n), c in blocks.items():
    f, rng = b.rsplit(':', 1)
    if '_gen.go' in f or 'zverif' in f or 'examples' in f: continue
    tot[f] += n
    if c: hit[f] += n
    else: per[f].append(rng)
for f in sorted(tot):
    if sub and sub not in f: continue
    print(f'{f.replace("github.com/xelaj/mtproto/","")}: {hit[f]}/{tot[f]} statements')
    if sub:
        for r in sorted(per[f], key=lambda r: int(r.split('.')[0])): print('   never:', r)
