#!/usr/bin/env python3
"""Writes /verif/MANIFEST.json from the table below (kept in one place so it stays valid)."""
import json, subprocess, os
ROOT = os.path.dirname(os.path.dirname(os.path.abspath(__file__)))
ENV = "GOFLAGS=-mod=mod GOPROXY=off GOSUMDB=off GOTOOLCHAIN=local"

CLAIMED = {
 "C20": dict(level="exploration", technique="runtime differential monitoring: generated links vs component-built oracle, recover()-based panic monitor, 5x repetition for determinism",
   text="Resolve is run on the full structured grid of the quantifier plus PRNG-generated structured and raw strings; an oracle that knows the components each link was assembled from states the demanded class; panics are caught by recover and repeated resolution checks determinism. Holds on the inputs generated, nothing more.",
   note="trusted: ref/link.Expect (hand-written statement of the property incl. explicit don't-care zones), Go runtime", ref="6/C20"),
}
CLAIMED.update({
 "C03": dict(level="exploration", technique="runtime differential monitoring against an independent MTProto 1.0 envelope/KDF implementation (both directions, every body length)",
   text="The library's Serialize output is opened by an independent reference server (x=0) and reference-sealed packets (x=8) are opened by the library, for every body length 0..N and boundary header values; any field, key id, msg_key or padding disagreement is a violation. Holds on the generated cases only.",
   note="trusted: ref/mtp (self-tested against OpenSSL IGE vectors and the core.telegram.org temp-key sample), crypto/aes, crypto/sha1", ref="6/C03"),
 "C04": dict(level="fault_enumeration", technique="fault enumeration at run time: every bit flip / truncation / re-keying / declared length of reference-sealed packets fed to the real parser under recover(); frame sequences through transport.ReadMsg on a loopback socket with every delivered message re-checked after later frames",
   text="For each valid packet the complete set of single-bit flips and truncation lengths, plus re-keying, garbage, parity and attacker-declared lengths, is fed to DeserializeEncrypted/DeserializeUnencrypted; the oracle allows refusal, or a message identical to what the key holder sealed, and nothing else; panics are violations.",
   note="trusted: ref/mtp; chance acceptance of a flipped packet that changes the message has probability 2^-128", ref="6/C04"),
 "C05": dict(level="exploration", technique="runtime differential monitoring against an independent AES-IGE / temp-key implementation via the verif-tag export of the block loop; buffer-aliasing monitor",
   text="The package-internal block loop (exported under build tag verif) is compared with an independent IGE for every block count 1..N and hostile key/IV shapes; refused lengths 0..47; wrappers for every payload length (every residue of (20+len) mod 16) and nonces with leading zero bytes, in both peer->library and library->peer directions; caller buffers are compared before/after.",
   note="trusted: ref/mtp, crypto/aes", ref="6/C05"),
 "C08": dict(level="exploration", technique="runtime monitoring under enumerated read segmentations (all compositions of short streams through the real exact-count reader) and a real loopback TCP peer writing paced segments",
   text="Wire bytes of WriteMsg are compared with an independent framing for every length around the 127-word switch; reference-framed streams are read back through go-dry's CancelableReader under every composition of short streams and PRNG segmentations of long ones, then EOF; the TCP path drives transport.NewTransport against a peer that writes segments, incl. 4-byte signed error codes and orderly close.",
   note="trusted: ref/mtp framing, kernel loopback; on the TCP path the kernel decides the split actually seen (the deterministic path is the exhaustive one)", ref="6/C08"),
})
CLAIMED.update({
 "C12": dict(level="exploration", technique="runtime monitoring of store/load histories against a one-register model, crash-point (every file prefix) enumeration, coarse-mtime fault emulation",
   text="PRNG sessions over four path kinds through same/fresh loaders; store/load histories over 1-3 loader objects checked against a last-store-wins register, natively and with one-second mtime emulation; every strict prefix of stored files loaded by a fresh loader must be an error. (The resume-without-key-exchange clause is monitored end-to-end once the reference server workloads are enabled; see DESIGN 6/C12.)",
   note="trusted: local filesystem semantics, os.Chtimes as emulation of coarse timestamps", ref="6/C12"),
 "C17": dict(level="exploration", technique="runtime differential monitoring of RpcErrorToNative against an independent zone oracle (strict / plain / don't-care), recover()-based panic monitor",
   text="All 15 table rows x hostile parameter spellings, every catalogued name (read from errors.go at run time), PRNG texts with % verbs; strict zone demands exact message/parameter/description, don't-care zone demands no panic, code preserved and message raw or X-form.",
   note="trusted: ref/rpcerr table restated from the property; errors.go catalogue as the documentation", ref="6/C17"),
 "C18": dict(level="exploration", technique="runtime monitoring against an independent SRP-2048 server (verifier-only), corner search for leading-zero A/B/S",
   text="GetInputCheckPassword answers are checked by an independent SRP server that holds only v: right password must verify, a neighbouring wrong password must not; corners with leading-zero B, A, S are searched at run time (A/S via scripted crypto/rand.Reader); empty password and out-of-range B.",
   note="trusted: ref/srpsrv (hand-written PBKDF2-HMAC-SHA512, formulas from core.telegram.org/api/srp)", ref="6/C18"),
})
CLAIMED.update({
 "C02": dict(level="exploration", technique="runtime differential monitoring: library encoder/decoder vs an independent schema-directed TL serialiser over every definition of the shipped schemas",
   text="For every one of the 1195 API definitions and the wire-used service definitions, schema-directed values are built positionally into the registered Go types, serialised by the library and compared byte-for-byte with an independent serialiser that interprets the .tl text; reference bytes are decoded by the library and matched. Definitions are enumerated completely, values are sampled (presence patterns, boundary lengths, nesting).",
   note="trusted: ref/tlschema (self-validated: canonical CRC-32 = written id on all lines), positional bridge, registry export H1", ref="6/C02"),
 "C13": dict(level="exploration", technique="run-time reflection audit of the registry built from the working tree against an independent parse + CRC-32 of the .tl files (finite space, enumerated completely)",
   text="Static half: every schema definition is compared with its registered Go type by reflection in a binary built from the working tree (ids three ways, field kinds, flag bits, flags position), every registered id is looked up in the schemas, wrappers are found by source scan. (Dynamic half - every generated client method end-to-end against the reference server - is added by the e2e workloads, see DESIGN 6/C13.)",
   note="trusted: ref/tlschema; known findings: five constructors registered that the schema only carries as comments", ref="6/C13"),
})
CLAIMED.update({
 "C01": dict(level="exploration", technique="runtime round-trip monitoring over type-directed values of every registered constructor (reflection over the registry export), both decode entry points, determinism of Marshal",
   text="Every registered type and wrapper gets reflection-built values (presence patterns incl. zero-valued members of present groups, boundary lengths and numbers, every enum member, every implementer in turn, nesting), is marshalled twice and decoded both ways; equality modulo nil/empty, big-int value and double bits. Types are enumerated completely, values sampled.",
   note="trusted: the value domain restriction to TL values (true-members set in present groups); registry export H1", ref="6/C01"),
 "C15": dict(level="exploration", technique="structure-aware mutation of valid encodings of every registered type under recover(), child-process death observation, exact allocation accounting (ReadMemStats confirm) and thread-CPU accounting, RLIMIT_AS tripwire",
   text="Valid encodings of every type are truncated at every boundary and have each word replaced by 20 hostile classes; three decode entry points; panics, child deaths (stack overflow, out of memory), allocation beyond 1 MiB + 4096*len(input) (exact re-measurement decides; gzip inputs exempt) and more than 5 s CPU per call are violations; a 60 s-CPU no-termination monitor ends a hung child.",
   note="trusted: runtime.ReadMemStats TotalAlloc as exact allocation measure, getrusage(RUSAGE_THREAD)", ref="6/C15"),
})
CLAIMED.update({
 "C06": dict(level="exploration", technique="end-to-end trace monitoring: real client vs an independent conformant MTProto server over loopback TCP, corner values forced by scripting crypto/rand.Reader and choosing server draws, child process under the race detector",
   text="Each case is one fresh key exchange against the reference server; every field named by the property is driven through its leading-zero corner (observed values are counted, not intentions); the oracle compares both sides' key, key id and salt, counts plaintext frames, requires the first encrypted request to be answered and checks the stored session.",
   note="trusted: refserver handshake (written from core.telegram.org), ref/mtp; client draws are forceable only when drawn from crypto/rand", ref="6/C06"),
 "C07": dict(level="fault_enumeration", technique="fault injection at run time: one tampered reply field per otherwise conformant exchange; observers: CreateConnection result under recover(), goroutine-dump stall detector, session path, server-side frame log",
   text="Every comparison site x corruption kind (bit flips, random, the other nonce, zero), fingerprint lists, encrypted-answer corruptions, wrong new_nonce_hash1 and alternative constructors are injected one at a time; the exchange must end in an error, persist nothing and send no encrypted frame.",
   note="trusted: refserver; a watchdog firing without the stall signature is inconclusive, not a violation", ref="6/C07"),
})
CLAIMED.update({
 "C09": dict(level="exploration", technique="end-to-end trace monitoring with unique request ids: real client vs scriptable reference server (shuffled, containerised, gzip-packed answers), PRNG delays at hook points, Go race detector (E1 escalation), child process; recorded call/return histories of the two dispatch tables checked for linearizability per key with porcupine",
   text="Concurrent callers issue requests of five result kinds; the server answers in scripted order and wrapping; every request carries a unique uid and every answer a stamp f(uid), so each return identifies the request it answered without search; oracle: exactly one return per call, own stamp or own rpc_error, no duplicates, no panic, no stall. Distinct hook-order signatures are reported as the measure of interleavings seen.",
   note="trusted: refserver, hook points only delay at existing suspension points; only executions produced are judged", ref="6/C09"),
 "C10": dict(level="exploration", technique="online trace checking at the server side of the socket (arrival-order monitor of msg_id/seq_no rules, ack set equality at quiescence), steering gate at the msg_id hook, injected clocks (H4), race detector with E1/E2 escalations",
   text="The reference server's log of decrypted client messages is checked in arrival order; bursts of goroutines are held right after obtaining their msg_id and released newest-first to provoke inversions; clocks are frozen, stepped back and coarsened; server histories of every dispatch class check that each content-related message is acknowledged.",
   note="trusted: refserver, H3/H4 hooks; gate patience is bounded so steering can fail but never wedge the client", ref="6/C10"),
 "C11": dict(level="exploration", technique="scripted history exploration (accepted-before/answered-after vs rejected requests across k salt rotations) with exactly-once accounting per request uid, session-store inspection, goroutine-dump stall detector",
   text="Histories of 1-3 rotations with every small (A,R) split, resumed and freshly keyed sessions, rotation by rejection or by new_session_created; the server rejects any message under a wrong salt; oracle: arrivals(uid) = 1 + rejections(uid), every call gets its own answer, the store holds the new salt, a probe completes, no stall.",
   note="trusted: refserver; stall verdicts only from the logical signature (identical dumps, all parked)", ref="6/C11"),
 "C16": dict(level="fault_enumeration", technique="fault/injection enumeration over a catalogue of server-to-client messages against the real receive loop in a child process (exit status, stderr, goroutine dumps observed by the parent), reconnect observed through the reconnect.done hook and the server's connection log",
   text="About 70 catalogue items singly and in PRNG sequences, with/without a custom handler, each followed by a probe RPC; the child must stay alive, the probe must return its own answer, a close must lead to a reconnect without plaintext frames.",
   note="trusted: refserver; harness drains the warning channel", ref="6/C16"),
})
CLAIMED.update({
 "C14": dict(level="exploration", technique="runtime differential monitoring of the real tools on generated programs: tlparser vs an independent parser, the tlgen binary re-run N times per schema (byte-identical output), generated packages compiled and audited by reflection in a throw-away binary",
   text="PRNG schemas inside the documented subset and every schema under schemes/: parser output vs independent parse, tlgen determinism over repeated runs (map-iteration order is the schedule dimension), generated code compiled with a stub Client and audited by reflection (ids, field kinds, flag bits, FlagIndex, nothing extra, one method per function). The shipped generator input must be accepted, compile and match.",
   note="trusted: ref/tlschema as the reading of generated schema text, go toolchain; schemas outside the documented subset (mtproto.tl) are informational", ref="6/C14"),
 "C19": dict(level="exploration", technique="runtime provenance (taint) monitor: interposed crypto/rand.Reader records every chunk served with caller frames; sinks observed outside the client; differential math/rand seeding pairs",
   text="Every secret observed at a sink (nonce, new_nonce after the server's RSA decryption, g_b, SRP A) must be explained by bytes the OS source served to a /repo caller; identical math/rand seeding after client creation must not reproduce them. Only executed paths are judged: the 'all paths' quantifier exceeds what runtime monitoring can show (stated in DESIGN 6/C19); reach is reported as draws per calling function.",
   note="limit: paths not executed are not judged; trusted: refserver RSA decryption, Go runtime stack walking for caller attribution", ref="6/C19"),
})
NOT_YET = {}

def main():
    props=[json.loads(l) for l in open(os.path.join(ROOT,"properties.jsonl"))]
    checks=[]; na=[]
    for p in props:
        i=p["id"]
        if i in CLAIMED:
            c=CLAIMED[i]
            checks.append({
              "property_id": i,
              "quick_cmd": f"bin/vcheck run {i} --tier quick",
              "thorough_cmd": f"bin/vcheck run {i} --tier thorough",
              "evidence_file": f"evidence/{i}.json",
              "replay_cmd_template": "bin/vcheck replay {path}",
              "engine": "vcheck",
              "level_claimed": {"category": c["level"], "text": c["text"], "design_ref": c["ref"]},
              "level_note": c["note"],
              "technique": c["technique"],
            })
        else:
            na.append({"property_id": i, "reason": NOT_YET.get(i, "check not built yet in this session (work in progress; see DESIGN.md section 6)")})
    commits = subprocess.run(["git","-C","/repo","log","--format=%h %s"],capture_output=True,text=True).stdout.splitlines()
    hook_commits=[l.split()[0] for l in commits if l.split(' ',1)[1].startswith("verif hook")]
    m={
      "version":1,
      "setup_cmd": f"cd harness && {ENV} go build -o ../bin/vcheck ./cmd/vcheck",
      "hooks":{
        "guard":"verif",
        "enable":"go build -tags verif (vcheck builds harness/cmd/vworker with -tags verif, plus -race for multi-goroutine workloads, from /repo's working tree at the start of every check)",
        "baseline_off_cmd": f"for d in /repo /repo/internal/cmd/tlgen /repo/telegram/deeplinks; do (cd $d && {ENV} go test -vet=off -count=1 ./...) || exit 1; done",
        "source_commits": hook_commits,
        "add_only": True,
      },
      "engines":[{"name":"vcheck","path":"harness/cmd/vcheck","serves_properties":sorted(CLAIMED),"kind_free_text":"parent process: builds harness/cmd/vworker from /repo's working tree (tags verif, -race where needed), runs sharded child workers, decides verdicts from their JSONL event logs, exit status and stderr, writes evidence"}],
      "checks":checks,
      "not_applicable":na,
      "notes":"Technique family: runtime monitoring and sanitizers. Exit 0 = held on what was observed; exit 1 + VIOLATION line = refuted; exit 2 + INCONCLUSIVE line (no VIOLATION) = build failure or nothing observed. VERIF_SEED selects the PRNG seed, VERIF_TIER overrides the tier. Known findings: known_findings.json.",
    }
    json.dump(m,open(os.path.join(ROOT,"MANIFEST.json"),"w"),indent=1)
    print("claimed",len(checks),"not_applicable",len(na))
main()
