#!/usr/bin/env python3
"""Writes /verif/MANIFEST.json from the table below (kept in one place so it stays valid)."""
import json, subprocess, os
ROOT = os.path.dirname(os.path.dirname(os.path.abspath(__file__)))
ENV = "GOFLAGS=-mod=mod GOPROXY=off GOSUMDB=off GOTOOLCHAIN=local"

CLAIMED = {
 "C20": dict(level="exploration", technique="runtime differential monitoring: generated links vs component-built oracle, recover()-based panic monitor, 5x repetition for determinism",
   text="Resolve is run on the full structured grid of the quantifier plus PRNG-generated structured and raw strings; an oracle that knows the components each link was assembled from states the demanded class; panics are caught by recover and repeated resolution checks determinism. Holds on the inputs generated, nothing more.",
   note="trusted: ref/link.Expect (hand-written statement of the property incl. explicit don't-care zones), Go runtime", ref="6/C20"),
}
NOT_YET = {}

def main():
    props=[json.loads(l) for l in open(os.path.join(ROOT,"properties.jsonl"))]
    checks=[]; na=[]
    for p in props:
        i=p["id"]
        if i in CLAIMED:
            c=CLAIMED[i]
            checks.append({
              "property_id": i,
              "quick_cmd": f"bin/vcheck run {i} --tier quick",
              "thorough_cmd": f"bin/vcheck run {i} --tier thorough",
              "evidence_file": f"evidence/{i}.json",
              "replay_cmd_template": "bin/vcheck replay {path}",
              "engine": "vcheck",
              "level_claimed": {"category": c["level"], "text": c["text"], "design_ref": c["ref"]},
              "level_note": c["note"],
              "technique": c["technique"],
            })
        else:
            na.append({"property_id": i, "reason": NOT_YET.get(i, "check not built yet in this session (work in progress; see DESIGN.md section 6)")})
    commits = subprocess.run(["git","-C","/repo","log","--format=%h %s"],capture_output=True,text=True).stdout.splitlines()
    hook_commits=[l.split()[0] for l in commits if l.split(' ',1)[1].startswith("verif hook")]
    m={
      "version":1,
      "setup_cmd": f"cd harness && {ENV} go build -o ../bin/vcheck ./cmd/vcheck",
      "hooks":{
        "guard":"verif",
        "enable":"go build -tags verif (vcheck builds harness/cmd/vworker with -tags verif, plus -race for multi-goroutine workloads, from /repo's working tree at the start of every check)",
        "baseline_off_cmd": f"for d in /repo /repo/internal/cmd/tlgen /repo/telegram/deeplinks; do (cd $d && {ENV} go test -vet=off -count=1 ./...) || exit 1; done",
        "source_commits": hook_commits,
        "add_only": True,
      },
      "engines":[{"name":"vcheck","path":"harness/cmd/vcheck","serves_properties":sorted(CLAIMED),"kind_free_text":"parent process: builds harness/cmd/vworker from /repo's working tree (tags verif, -race where needed), runs sharded child workers, decides verdicts from their JSONL event logs, exit status and stderr, writes evidence"}],
      "checks":checks,
      "not_applicable":na,
      "notes":"Technique family: runtime monitoring and sanitizers. Exit 0 = held on what was observed; exit 1 + VIOLATION line = refuted; exit 2 + INCONCLUSIVE line (no VIOLATION) = build failure or nothing observed. VERIF_SEED selects the PRNG seed, VERIF_TIER overrides the tier. Known findings: known_findings.json.",
    }
    json.dump(m,open(os.path.join(ROOT,"MANIFEST.json"),"w"),indent=1)
    print("claimed",len(checks),"not_applicable",len(na))
main()
