package wl

import (
	"bytes"
	crand "crypto/rand"
	"fmt"
	"io"
	"math/big"
	mrand "math/rand"
	"strings"

	"github.com/xelaj/mtproto/telegram"
	"github.com/xelaj/mtproto/zverif/ref/mtp"
	"github.com/xelaj/mtproto/zverif/ref/srpsrv"
	"github.com/xelaj/mtproto/zverif/wk"
)

func init() { wk.Register("c18", c18) }

var c18Passwords = []string{string(bytes.Repeat([]byte("long password "), 80)), string(bytes.Repeat([]byte("\u6f22"), 400)), string(bytes.Repeat([]byte("p"), 1024)), string(bytes.Repeat([]byte("p"), 1025)), string(bytes.Repeat([]byte("q"), 5000)),
	"password", "p", "пароль", "🔐 pass phrase with spaces", "\x00nul", "a\nb", "ÀÉÎõü", "0", " leading", "trailing ", "very long " + string(bytes.Repeat([]byte("x"), 300))}

// scriptedReader replaces crypto/rand.Reader: the next 256-byte draw returns `next` if set.
type scriptedReader struct {
	inner  io.Reader
	next   []byte
	served int
}

func (s *scriptedReader) Read(p []byte) (int, error) {
	if s.next != nil && len(p) == len(s.next) {
		copy(p, s.next)
		s.next = nil
		s.served++
		return len(p), nil
	}
	return s.inner.Read(p)
}

func c18(c *wk.Ctx) {
	idx := 0
	n := c.Pick(32, 600)
	p := mtp.DHPrime
	for k := 0; k < n; k++ {
		if c.Mine(idx) {
			r := c.Rand(idx)
			c.Begin(idx, fmt.Sprintf("srp case %d", k))
			c18case(c, idx, r, k, p)
		}
		idx++
	}
	// several logins computed at once (different accounts in one process), each verified by its own server
	for k := 0; k < c.Pick(2, 24); k++ {
		if c.Mine(idx) {
			c.Begin(idx, fmt.Sprintf("srp concurrent %d", k))
			res := concurrently(8, int64(idx), func(g int, r *mrand.Rand) string {
				for it := 0; it < 3; it++ {
					pw := randWord(r) + fmt.Sprint(g)
					s1, s2 := rbytes(r, 8+r.Intn(24)), rbytes(r, 8+r.Intn(24))
					gens := validGenerators(p)
					gg := int(gens[r.Intn(len(gens))])
					srv := srpsrv.NewServer(p, gg, s1, s2, []byte(pw))
					srv.SetB(new(big.Int).SetBytes(rbytes(r, 256)))
					ap := &telegram.AccountPassword{HasPassword: true, SRPB: srpsrv.Pad(srv.B.Bytes()), SRPID: int64(g),
						CurrentAlgo: &telegram.PasswordKdfAlgoSHA256SHA256PBKDF2HMACSHA512iter100000SHA256ModPow{Salt1: s1, Salt2: s2, G: int32(gg), P: p.Bytes()}}
					res, err := telegram.GetInputCheckPassword(pw, ap)
					if err != nil {
						return "error: " + err.Error()
					}
					o, ok := res.(*telegram.InputCheckPasswordSRPObj)
					if !ok || o.SRPID != int64(g) || srv.Check(o.A, o.M1) != nil {
						return fmt.Sprintf("right-password-rejected: goroutine %d login %d (password %q, g=%d): the reference server rejects the answer computed while 7 other logins were being computed", g, it, pw, gg)
					}
					wrong, err := telegram.GetInputCheckPassword(pw+"x", ap)
					if w, ok := wrong.(*telegram.InputCheckPasswordSRPObj); err == nil && ok && srv.Check(w.A, w.M1) == nil {
						return fmt.Sprintf("wrong-password-accepted: goroutine %d login %d", g, it)
					}
				}
				return ""
			})
			c.Count("evaluations", 8*3*2)
			for _, m := range res {
				if m != "" {
					c.Viol("C18", idx, "concurrent/"+strings.SplitN(m, ":", 2)[0], m, nil)
				}
			}
			c.Distinct("concurrent", k)
		}
		idx++
	}
}

// c18split: (password, salt1, salt2) triples with identical concatenation but different boundaries, checked one
// after the other in the same process (a memoised x keyed without boundaries would confuse them).
func c18split(c *wk.Ctx, idx int, r *mrand.Rand, p *big.Int) {
	base := []byte(randWord(r) + randWord(r) + randWord(r) + randWord(r) + "0123456789ab")
	cuts := [][2]int{{4, 8}, {5, 8}, {4, 9}, {0, 8}, {4, 4}, {len(base), len(base)}, {6, 6}}
	for _, ct := range cuts {
		pw, s1, s2 := string(base[:ct[0]]), base[ct[0]:ct[1]], base[ct[1]:]
		if pw == "" {
			pw, s1 = string(base[:1]), base[1:ct[1]]
		}
		srv := srpsrv.NewServer(p, 3, s1, s2, []byte(pw))
		srv.SetB(new(big.Int).SetBytes(rbytes(r, 256)))
		ap := &telegram.AccountPassword{HasPassword: true, SRPB: srpsrv.Pad(srv.B.Bytes()), SRPID: 7,
			CurrentAlgo: &telegram.PasswordKdfAlgoSHA256SHA256PBKDF2HMACSHA512iter100000SHA256ModPow{Salt1: s1, Salt2: s2, G: 3, P: p.Bytes()}}
		var res telegram.InputCheckPasswordSRP
		var err error
		pan, pm, st := wk.Guard(func() { res, err = telegram.GetInputCheckPassword(pw, ap) })
		c.Count("evaluations", 1)
		c.Distinct("split", len(pw), len(s1), len(s2), idx)
		if pan || err != nil {
			c.Viol("C18", idx, "split/failed", fmt.Sprint(pm, err, st), pw)
			return
		}
		if o, ok := res.(*telegram.InputCheckPasswordSRPObj); !ok || srv.Check(o.A, o.M1) != nil {
			c.Viol("C18", idx, "split/right-password-rejected", fmt.Sprintf("password %q salt1 %q salt2 %q (same bytes as an earlier triple of this process, split differently): the reference server rejects the answer", pw, s1, s2), pw)
			return
		}
	}
}

func c18case(c *wk.Ctx, idx int, r *mrand.Rand, k int, p *big.Int) {
	if k%8 == 5 {
		c18split(c, idx, r, p)
	}
	pw := c18Passwords[k%len(c18Passwords)]
	if k >= len(c18Passwords) && r.Intn(2) == 0 {
		pw = randWord(r) + string(rune(0x400+r.Intn(200)))
	}
	s1 := rbytes(r, []int{0, 1, 8, 16, 32, 64}[r.Intn(6)])
	s2 := rbytes(r, []int{0, 1, 8, 16, 32, 64}[r.Intn(6)])
	switch k % 16 { // the corners of "salts of any length", not left to the PRNG
	case 3:
		s1, s2 = []byte{}, []byte{}
	case 7:
		s1, s2 = nil, nil
	case 13:
		s1 = []byte{}
	}
	// the server's group: Telegram's usual prime, or (one case in three) another safe prime, for which every g in
	// 2..7 is valid; the generator is one the specification allows for the modulus (usual prime: 3, 4, 7)
	if k%3 == 2 {
		p = srpsrv.SafePrimeAllGenerators
		c.Count("modulus.other_safe_prime", 1)
	}
	gens := validGenerators(p)
	g := int(gens[(k/3)%len(gens)])
	c.Count(fmt.Sprintf("generator.g=%d", g), 1)
	srv := srpsrv.NewServer(p, g, s1, s2, []byte(pw))
	// server secret b; corner: B begins with a zero byte (searched: ~256 modexps)
	corner := []string{"none", "B-leading-zero", "A-leading-zero", "S-leading-zero"}[k%4]
	b := new(big.Int).SetBytes(rbytes(r, 256))
	srv.SetB(b)
	highNext := corner == "B-leading-zero" && k%8 == 1 // ... and the byte after the zero is above the first byte of p
	if corner == "B-leading-zero" {
		for tries := 0; tries < 40000; tries++ {
			if pb := srpsrv.Pad(srv.B.Bytes()); pb[0] == 0 && srv.B.Sign() > 0 && len(srv.B.Bytes()) >= 248 && (!highNext || pb[1] > p.Bytes()[0]) {
				break
			}
			b.Add(b, big.NewInt(1))
			srv.SetB(b)
		}
	}
	Bbytes := srpsrv.Pad(srv.B.Bytes())
	if r.Intn(3) == 0 || highNext {
		Bbytes = srv.B.Bytes() // servers may send B without left padding
	}
	ap := &telegram.AccountPassword{
		HasPassword: true,
		CurrentAlgo: &telegram.PasswordKdfAlgoSHA256SHA256PBKDF2HMACSHA512iter100000SHA256ModPow{Salt1: s1, Salt2: s2, G: int32(g), P: p.Bytes()},
		SRPB:        Bbytes,
		SRPID:       pick64(r),
	}
	// client secret a: scripted through crypto/rand.Reader when the tree draws from it
	sr := &scriptedReader{inner: crand.Reader}
	old := crand.Reader
	crand.Reader = sr
	defer func() { crand.Reader = old }()
	if corner == "A-leading-zero" || corner == "S-leading-zero" {
		a := new(big.Int).SetBytes(rbytes(r, 256))
		gg := big.NewInt(int64(g))
		for tries := 0; tries < 4000; tries++ {
			A := new(big.Int).Exp(gg, a, p)
			ok := srpsrv.Pad(A.Bytes())[0] == 0
			if corner == "S-leading-zero" {
				ok = srpsrv.Pad(srv.S(A).Bytes())[0] == 0
			}
			if ok {
				break
			}
			a.Add(a, big.NewInt(1))
		}
		sr.next = mtp.LeftPad(a.Bytes(), 256)
	}
	var res telegram.InputCheckPasswordSRP
	var err error
	pan, pm, st := wk.Guard(func() { res, err = telegram.GetInputCheckPassword(pw, ap) })
	if pan {
		c.Viol("C18", idx, "panic/"+st, pm, pw)
		return
	}
	if err != nil {
		if len(Bbytes) < 248 {
			c.Count("short_B_refused", 1) // below 2^(2048-64): out of range by the client's own rule; refusal is fine
			return
		}
		if len(Bbytes) < 256 {
			// 0 < B < p, sent without its leading zero byte(s): the same in-range number
			c.Viol("C18", idx, "error-on-valid-input/B-without-leading-zero", fmt.Sprintf("B = %x… (%d bytes, in range) is refused: %v", Bbytes[:4], len(Bbytes), err), pw)
			return
		}
		c.Viol("C18", idx, "error-on-valid-input", err.Error(), pw)
		return
	}
	obj, ok := res.(*telegram.InputCheckPasswordSRPObj)
	if !ok {
		c.Viol("C18", idx, "wrong-answer-type", fmt.Sprintf("%T", res), pw)
		return
	}
	cornerHit := corner
	if (corner == "A-leading-zero" || corner == "S-leading-zero") && sr.served == 0 {
		cornerHit = corner + "(not-forced: client secret not drawn from crypto/rand)"
		c.Count("corner.not_forced", 1)
	}
	if obj.SRPID != ap.SRPID {
		c.Viol("C18", idx, "srp-id", "", nil)
	}
	if verr := srv.Check(obj.A, obj.M1); verr != nil {
		lzA := len(obj.A) == 256 && obj.A[0] == 0
		c.Viol("C18", idx, fmt.Sprintf("right-password-rejected/corner=%s/lenA=%d/A0zero=%v", corner, len(obj.A), lzA), fmt.Sprintf("password %q salts %d/%d g=%d: reference server rejects (A, M1): %v", pw, len(s1), len(s2), g, verr), pw)
	}
	if len(obj.A) == 256 && obj.A[0] == 0 {
		c.Count("observed.A_leading_zero", 1)
	}
	if Bbytes[0] == 0 {
		c.Count("observed.B_leading_zero", 1)
	}
	// the answer computed for another password must be rejected
	wrong := pw + "x"
	if k%2 == 0 && len(pw) > 1 {
		wrong = pw[:len(pw)-1]
	}
	var res2 telegram.InputCheckPasswordSRP
	pan, pm, st = wk.Guard(func() { res2, err = telegram.GetInputCheckPassword(wrong, ap) })
	if pan {
		c.Viol("C18", idx, "panic/"+st, pm, wrong)
		return
	}
	if err == nil {
		if o2, ok := res2.(*telegram.InputCheckPasswordSRPObj); ok {
			if srv.Check(o2.A, o2.M1) == nil {
				c.Viol("C18", idx, "wrong-password-accepted", fmt.Sprintf("answer for %q accepted by a server holding the verifier of %q", wrong, pw), wrong)
			}
		}
	}
	c.Distinct("srp", pw, len(s1), len(s2), g, cornerHit, len(Bbytes))
	c.Count("corner."+corner, 1)
	if k < 4 {
		c.Sample(map[string]interface{}{"password": pw, "salt1_len": len(s1), "salt2_len": len(s2), "g": g, "corner": cornerHit, "B_len": len(Bbytes)})
	}
	// empty password and out-of-range B, once per case family
	if k%4 == 0 {
		var r0 telegram.InputCheckPasswordSRP
		pan, pm, st = wk.Guard(func() { r0, err = telegram.GetInputCheckPassword("", ap) })
		if pan {
			c.Viol("C18", idx, "panic/"+st, pm, "")
		} else if _, ok := r0.(*telegram.InputCheckPasswordEmpty); !ok || err != nil {
			c.Viol("C18", idx, "empty-password", fmt.Sprintf("%T %v", r0, err), "")
		}
		c.Distinct("srp-empty", k)
		for name, bad := range map[string][]byte{"zero": make([]byte, 256), "p": p.Bytes(), "p+1": new(big.Int).Add(p, big.NewInt(1)).Bytes(), "long": append([]byte{1}, srpsrv.Pad(srv.B.Bytes())...), "empty": {}} {
			ap2 := *ap
			ap2.SRPB = bad
			var rb telegram.InputCheckPasswordSRP
			pan, pm, st = wk.Guard(func() { rb, err = telegram.GetInputCheckPassword(pw, &ap2) })
			c.Count("evaluations", 1)
			c.Distinct("srp-badB", name, k)
			if pan {
				c.Viol("C18", idx, "panic-bad-B/"+name+"/"+st, pm, name)
			} else if err == nil {
				c.Viol("C18", idx, "out-of-range-B-accepted/"+name, fmt.Sprintf("B=%s answered with %T", name, rb), name)
			}
		}
	}
}
