package wl

import (
	"bytes"
	"encoding/json"
	"fmt"
	"hash/crc32"
	"math/rand"
	"os"
	"os/exec"
	"path/filepath"
	"sort"
	"strings"

	"github.com/xelaj/mtproto/internal/cmd/tlgen/tlparser"
	"github.com/xelaj/mtproto/zverif/c14dump"
	ts "github.com/xelaj/mtproto/zverif/ref/tlschema"
	"github.com/xelaj/mtproto/zverif/wk"
)

func init() { wk.Register("c14", c14) }

// ---------------------------------------------------------------------------------------------
// random schemas inside the subset the tool documents

var c14words = []string{"alpha", "bravo", "chat", "delta", "echo", "file", "geo", "hash", "item", "joke", "key", "lang", "media", "note", "offer", "peer", "query", "range", "state", "theme", "user", "video", "wall", "xray", "yard", "zone"}
var c14ns = []string{"", "", "", "auth", "messages", "help", "a1"}

// names real schemas use that are awkward for a Go generator: keywords, predeclared identifiers, packages the
// generated files import, locals and receivers of the generated bodies
var c14awkward = []string{"ok", "err", "resp", "c", "type", "errors", "range", "func", "reflect", "params", "data", "bytes", "len", "error", "string", "tl", "msg", "id", "url", "hash",
	"var", "map", "chan", "go", "select", "default", "interface", "struct", "package", "import", "return", "switch", "case", "for", "if", "else", "break", "const", "continue", "defer", "fallthrough", "goto",
	"nil", "true", "false", "iota", "int", "int32", "int64", "float64", "bool", "byte", "any", "new", "make", "append", "cap", "copy", "panic", "recover", "print", "fmt", "request", "response", "result", "res", "e", "m", "i", "v", "b", "t", "x", "self", "this", "client", "ctx", "query"}

// awkwardSchemas: every awkward name used as a parameter of a constructor and of functions returning an object, a
// Bool and a vector (the generated bodies differ), so that none of them depends on the PRNG to be met.
func awkwardSchemas() []string {
	var out []string
	per := 12
	for lo := 0; lo < len(c14awkward); lo += per {
		hi := lo + per
		if hi > len(c14awkward) {
			hi = len(c14awkward)
		}
		var sb strings.Builder
		r := rand.New(rand.NewSource(int64(lo) + 99))
		sb.WriteString(c14line("thing", "count:int ", "Thing", r) + "\n")
		sb.WriteString(c14line("otherThing", "flags:# count:flags.0?int ", "Thing", r) + "\n")
		for i, w := range c14awkward[lo:hi] {
			sb.WriteString(c14line(fmt.Sprintf("holder%d", lo+i), fmt.Sprintf("%s:int second:string ", w), fmt.Sprintf("Holder%d", lo+i), r) + "\n")
		}
		sb.WriteString("---functions---\n")
		for i, w := range c14awkward[lo:hi] {
			sb.WriteString(c14line(fmt.Sprintf("getObj%d", lo+i), fmt.Sprintf("%s:int ", w), "Thing", r) + "\n")
			sb.WriteString(c14line(fmt.Sprintf("getBool%d", lo+i), fmt.Sprintf("first:long %s:string ", w), "Bool", r) + "\n")
			sb.WriteString(c14line(fmt.Sprintf("getVec%d", lo+i), fmt.Sprintf("flags:# %s:flags.1?Thing ", w), "Vector<Thing>", r) + "\n")
			sb.WriteString(c14line(fmt.Sprintf("getInts%d", lo+i), fmt.Sprintf("%s:Vector<int> ", w), "Vector<long>", r) + "\n")
		}
		out = append(out, sb.String())
	}
	return out
}

var c14prefixes = []string{"invoke", "init", "vector", "flags", "true", "bool", "int", "long", "string", "bytes", "double", "null", "error", "type", "get", "set", "is", "new", "obj", "params"}

type c14gen struct {
	r     *rand.Rand
	used  map[string]bool
	types []string // declared type names (with namespace)
	n     int
}

func (g *c14gen) ident(upper bool) string {
	for {
		w := c14words[g.r.Intn(len(c14words))]
		if g.r.Intn(2) == 0 {
			w += strings.Title(c14words[g.r.Intn(len(c14words))])
		}
		if g.r.Intn(8) == 0 {
			// names that begin like something the tool treats specially (the generic invoke*/init* wrappers, built-in
			// type names, the flags word) but are ordinary definitions
			w = c14prefixes[g.r.Intn(len(c14prefixes))] + strings.Title(w)
		}
		g.n++
		if g.r.Intn(3) == 0 {
			w += fmt.Sprint(g.n)
		}
		if upper {
			w = strings.ToUpper(w[:1]) + w[1:]
		} else if g.r.Intn(4) == 0 {
			w = camelToSnake(w) // the spelling of the service schema: bad_msg_notification, future_salt
		}
		k := strings.ReplaceAll(strings.ToLower(w), "_", "")
		if !g.used[k] && k != "flags" && k != "type" && k != "func" && k != "range" && k != "true" && k != "vector" {
			g.used[k] = true
			return w
		}
	}
}

func camelToSnake(w string) string {
	var b strings.Builder
	for i, ch := range w {
		if ch >= 'A' && ch <= 'Z' {
			if i > 0 {
				b.WriteByte('_')
			}
			ch += 'a' - 'A'
		}
		b.WriteRune(ch)
	}
	return b.String()
}

func (g *c14gen) qualified(upper bool) string {
	ns := c14ns[g.r.Intn(len(c14ns))]
	id := g.ident(upper)
	if ns != "" {
		return ns + "." + id
	}
	return id
}

func (g *c14gen) paramType(allowTrue bool) string {
	prims := []string{"int", "long", "double", "string", "bytes", "Bool"}
	switch k := g.r.Intn(10); {
	case k < 4:
		return prims[g.r.Intn(len(prims))]
	case k < 6 && len(g.types) > 0:
		return g.types[g.r.Intn(len(g.types))]
	case k < 8:
		el := prims[g.r.Intn(5)] // no Vector<Bool>
		if g.r.Intn(2) == 0 && len(g.types) > 0 {
			el = g.types[g.r.Intn(len(g.types))]
		}
		return "Vector<" + el + ">"
	case allowTrue:
		return "true"
	}
	return prims[g.r.Intn(len(prims))]
}

func (g *c14gen) params() string {
	n := g.r.Intn(6)
	if n == 0 {
		if g.r.Intn(3) == 0 {
			return "flags:# " // a flags word nothing depends on yet (room for later layers): still a word on the wire
		}
		return ""
	}
	var ps []string
	names := map[string]bool{}
	pname := func() string {
		for {
			w := c14words[g.r.Intn(len(c14words))]
			if g.r.Intn(2) == 0 {
				w += "_" + c14words[g.r.Intn(len(c14words))]
			}
			if g.r.Intn(4) == 0 {
				w += "_id"
			}
			if g.r.Intn(12) == 0 {
				// names real schemas use that are awkward for a Go generator (keywords, imported packages, locals of the generated body)
				w = c14awkward[g.r.Intn(len(c14awkward))]
			}
			k := strings.ReplaceAll(w, "_", "")
			if !names[k] && w != "flags" {
				names[k] = true
				return w
			}
		}
	}
	withFlags := g.r.Intn(2) == 0
	lead := 0
	if withFlags && g.r.Intn(3) == 0 {
		lead = 1 + g.r.Intn(2) // flags:# not in first position
	}
	for i := 0; i < lead; i++ {
		ps = append(ps, pname()+":"+g.paramType(false))
	}
	if withFlags {
		ps = append(ps, "flags:#")
	}
	bits := []int{0, 1, 2, 3, 7, 15, 30, 31}
	lastBit := -1
	for i := 0; i < n; i++ {
		if withFlags && g.r.Intn(3) != 0 {
			b := bits[g.r.Intn(len(bits))]
			if lastBit >= 0 && g.r.Intn(3) == 0 {
				b = lastBit // shared bit
			}
			lastBit = b
			ps = append(ps, fmt.Sprintf("%s:flags.%d?%s", pname(), b, g.paramType(true)))
		} else {
			ps = append(ps, pname()+":"+g.paramType(false))
		}
	}
	return strings.Join(ps, " ") + " "
}

func c14line(name, params, result string, r *rand.Rand) string {
	body := name + " " + params + "= " + result
	id := crc32.ChecksumIEEE([]byte(body))
	if r.Intn(3) == 0 || id == 0 {
		id = r.Uint32() | 1
	}
	return fmt.Sprintf("%s#%x %s= %s;", name, id, params, result)
}

// genSchemaText returns a random schema; plainComments adds ordinary // comments like the shipped schemas have.
func genSchemaText(r *rand.Rand, plainComments bool) string {
	g := &c14gen{r: r, used: map[string]bool{}}
	var sb strings.Builder
	nt := 2 + r.Intn(6)
	type tdecl struct {
		name string
		kind string
	}
	var decls []tdecl
	for i := 0; i < nt; i++ {
		decls = append(decls, tdecl{g.qualified(true), []string{"enum", "single", "multi", "multi", "clash", "clash-single"}[r.Intn(6)]})
		g.types = append(g.types, decls[i].name)
	}
	if plainComments {
		sb.WriteString("// a plain comment, as the shipped schemas carry them\n// another one: with punctuation, #hash and = signs;\n\n")
	}
	for _, d := range decls {
		if r.Intn(2) == 0 {
			sb.WriteString("// @type " + d.name + " description of the type\n")
		}
		snake := r.Intn(3) == 0
		lowerType := func() string {
			i := strings.LastIndex(d.name, ".") + 1
			if snake {
				// bad_msg_notification = BadMsgNotification: differs from the type by more than the first letter's case
				return d.name[:i] + camelToSnake(d.name[i:])
			}
			return d.name[:i] + strings.ToLower(d.name[i:i+1]) + d.name[i+1:]
		}
		switch d.kind {
		case "enum":
			for k := 2 + r.Intn(3); k > 0; k-- {
				if r.Intn(3) == 0 {
					sb.WriteString("// @enum one member\n")
				}
				ep := ""
				if r.Intn(5) == 0 {
					ep = "flags:# " // one member of an otherwise field-less type carries a bare flags word: not an enumeration
				}
				sb.WriteString(c14line(g.qualified(false), ep, d.name, r) + "\n")
			}
		case "single":
			sb.WriteString(c14line(g.qualified(false), g.params(), d.name, r) + "\n")
		case "clash-single":
			sb.WriteString(c14line(lowerType(), g.params(), d.name, r) + "\n")
		default:
			first := true
			for k := 2 + r.Intn(3); k > 0; k-- {
				name := g.qualified(false)
				if d.kind == "clash" && first {
					name = lowerType()
				}
				first = false
				p := g.params()
				if r.Intn(3) == 0 {
					sb.WriteString("// @constructor does something\n")
					if p != "" && r.Intn(2) == 0 {
						pn := strings.SplitN(strings.Fields(p)[0], ":", 2)[0]
						sb.WriteString("// @param " + pn + " the first parameter\n")
					}
				}
				sb.WriteString(c14line(name, p, d.name, r) + "\n")
			}
		}
		if plainComments && r.Intn(3) == 0 {
			sb.WriteString("// trailing plain comment\n")
		}
		sb.WriteString("\n")
	}
	sb.WriteString("---functions---\n\n")
	for k := 1 + r.Intn(5); k > 0; k-- {
		res := g.types[r.Intn(len(g.types))]
		switch r.Intn(5) {
		case 0:
			res = "Bool"
		case 1:
			res = "Vector<" + g.types[r.Intn(len(g.types))] + ">"
		case 2:
			res = "Vector<" + []string{"int", "long", "string"}[r.Intn(3)] + ">"
		}
		if r.Intn(3) == 0 {
			sb.WriteString("// @method calls something\n")
		}
		sb.WriteString(c14line(g.qualified(false), g.params(), res, r) + "\n")
	}
	if r.Intn(4) == 0 {
		sb.WriteString("---types---\n")
		name := g.qualified(true)
		g.types = append(g.types, name)
		sb.WriteString(c14line(g.qualified(false), "count:int ", name, r) + "\n")
	}
	return sb.String()
}

// ---------------------------------------------------------------------------------------------

// harnessDir: the module root the worker was built from (generated packages must live inside it).
func harnessDir() string {
	if r := os.Getenv("VERIF_ROOT"); r != "" {
		return filepath.Join(r, "harness")
	}
	return "/verif/harness"
}

type c14case struct {
	tag   string
	text  string
	label string
}

func c14(c *wk.Ctx) {
	tlgen := c.Args["tlgen"]
	if tlgen == "" {
		c.Log.Emit(coreInconclusive("c14: no tlgen binary given"))
		return
	}
	idx := 0
	var cases []c14case
	n := c.Pick(24, 400)
	for k := 0; k < n; k++ {
		if c.Mine(idx) {
			r := c.Rand(idx)
			plain := k%4 == 3
			label := "random"
			if plain {
				label = "random+plain-comments"
			}
			cases = append(cases, c14case{tag: fmt.Sprintf("s%d", idx), text: genSchemaText(r, plain), label: label})
		}
		idx++
	}
	// schemas with nothing of some kind: no functions, no types, no enums, one definition only, a type that occurs
	// only as a vector element or only as a result
	r0 := rand.New(rand.NewSource(4242))
	edge := []string{
		c14line("onlyThing", "count:int ", "OnlyThing", r0) + "\n",
		c14line("alpha", "", "Greek", r0) + "\n" + c14line("beta", "", "Greek", r0) + "\n",
		"---functions---\n" + c14line("ping", "id:long ", "Bool", r0) + "\n" + c14line("listIds", "", "Vector<long>", r0) + "\n",
		c14line("leaf", "v:string ", "Leaf", r0) + "\n" + c14line("tree", "leaves:Vector<Leaf> ", "Tree", r0) + "\n---functions---\n" + c14line("getTree", "", "Tree", r0) + "\n",
		c14line("resultOnly", "", "ResultOnly", r0) + "\n" + c14line("resultOther", "x:int ", "ResultOnly", r0) + "\n---functions---\n" + c14line("getIt", "flags:# a:flags.0?true ", "ResultOnly", r0) + "\n" + c14line("getThem", "", "Vector<ResultOnly>", r0) + "\n",
		c14line("a.one", "", "a.Kind", r0) + "\n" + c14line("b.one", "", "b.Kind", r0) + "\n" + c14line("a.two", "k:b.Kind ", "a.Kind", r0) + "\n---functions---\n" + c14line("a.get", "k:a.Kind ", "b.Kind", r0) + "\n" + c14line("b.get", "k:b.Kind ", "a.Kind", r0) + "\n",
		"---functions---\n---types---\n" + c14line("lateType", "n:int ", "LateType", r0) + "\n",
		c14line("plainKind", "", "Kind", r0) + "\n" + c14line("flaggedKind", "flags:# ", "Kind", r0) + "\n" + c14line("otherKind", "", "Kind", r0) + "\n" + c14line("holder", "k:Kind ks:Vector<Kind> ", "Holder", r0) + "\n",
		c14line("onlyFlags", "flags:# ", "OnlyFlags", r0) + "\n---functions---\n" + c14line("callFlags", "flags:# ", "OnlyFlags", r0) + "\n",
	}
	for _, text := range edge {
		if c.Mine(idx) {
			cases = append(cases, c14case{tag: fmt.Sprintf("s%d", idx), text: text, label: "edge"})
		}
		idx++
	}
	for _, text := range awkwardSchemas() {
		if c.Mine(idx) {
			cases = append(cases, c14case{tag: fmt.Sprintf("s%d", idx), text: text, label: "awkward-names"})
		}
		idx++
	}
	// every shipped schema must parse; the generator's input must be accepted, compile and match
	shipped, _ := filepath.Glob("/repo/schemes/*.tl")
	sort.Strings(shipped)
	for _, f := range shipped {
		if c.Mine(idx) {
			b, err := os.ReadFile(f)
			if err == nil {
				base := filepath.Base(f)
				c.Begin(idx, "shipped "+base)
				c14parseOnly(c, idx, base, string(b))
				if base == "api_latest.tl" {
					cases = append(cases, c14case{tag: fmt.Sprintf("s%d", idx), text: string(b), label: "shipped/api_latest.tl"})
				}
			}
		}
		idx++
	}
	// (a) parser vs independent parse, (b) determinism of the tool
	os.MkdirAll(filepath.Join(harnessDir(), "zgen"), 0o755)
	work, err := os.MkdirTemp(filepath.Join(harnessDir(), "zgen"), fmt.Sprintf("w%d-", c.Shard))
	if err != nil {
		work, err = os.MkdirTemp(filepath.Join(harnessDir(), "zgen"), fmt.Sprintf("w%d-", c.Shard))
		if err != nil {
			c.Log.Emit(coreInconclusive("c14: " + err.Error()))
			return
		}
	}
	defer os.RemoveAll(work)
	var buildable []c14case
	for _, cs := range cases {
		ci := 0
		fmt.Sscanf(cs.tag, "s%d", &ci)
		c.Begin(ci, cs.label+"\n"+wk.Short(cs.text, 3000))
		if !strings.HasPrefix(cs.label, "shipped") {
			if !c14parseCompare(c, ci, cs) {
				continue
			}
		}
		if c14generate(c, ci, cs, tlgen, work, c.Pick(3, 10)) {
			buildable = append(buildable, cs)
		}
		c.Distinct("schema", cs.label, core64(cs.text))
		if ci%5 == 0 && !strings.HasPrefix(cs.label, "shipped") {
			c.Sample(map[string]interface{}{"kind": cs.label, "schema": wk.Short(cs.text, 1500)})
		}
	}
	// (c) compile the generated packages together with the reflection dumper and compare
	c14build(c, buildable, work, true)
}

// insideSubset says whether a schema stays inside the TL subset the tool documents (DESIGN 6/C14):
// every definition carries an id, no %T / lower-case vector<>, no int128/int256/Object/!X outside the
// excluded generic wrappers, no lines the reference parser cannot read.
func insideSubset(text string) (bool, string) {
	ref, err := ts.Parse(text)
	if err != nil {
		return false, err.Error()
	}
	var odd []string
	for _, ln := range ref.Skipped {
		// the built-in lines the tool documents as skipped: "int ? = Int;" ... and "vector#1cb5c415 {t:Type} # [ t ] = Vector t;"
		f := strings.Fields(ln)
		if len(f) > 0 && (f[0] == "int" || f[0] == "long" || f[0] == "double" || f[0] == "string" || f[0] == "bytes" || strings.HasPrefix(f[0], "vector#")) {
			continue
		}
		odd = append(odd, ln)
	}
	if len(odd) > 0 {
		return false, "lines outside the subset: " + wk.Short(strings.Join(odd, " | "), 200)
	}
	var bad func(t *ts.TypeExpr) string
	bad = func(t *ts.TypeExpr) string {
		if t.Vector {
			if t.BareVec {
				return "bare vector<>"
			}
			return bad(t.Elem)
		}
		if t.Bare {
			return "%" + t.Name
		}
		switch t.Name {
		case "int128", "int256", "Object", "!X", "X":
			return t.Name
		}
		return ""
	}
	for _, d := range ref.Defs {
		if c14dump.Excluded[d.Name] {
			continue
		}
		if !d.HasID {
			return false, "definition without id: " + d.Name
		}
		if len(d.Generics) > 0 {
			return false, "generic definition " + d.Name
		}
		for i := range d.Params {
			if b := bad(d.Params[i].Type); b != "" {
				return false, d.Name + " uses " + b
			}
		}
	}
	return true, ""
}

func c14parseOnly(c *wk.Ctx, idx int, name, text string) {
	if ok, why := insideSubset(text); !ok {
		// e.g. schemes/mtproto.tl (id-less `message`, vector<%Message>, int128): not an input the tool documents
		c.Count("shipped.outside_documented_subset", 1)
		c.Note("shipped_outside_subset", name+": "+why)
		wk.Guard(func() { tlparser.ParseSchema(text) }) // still must not hang the check; result not judged
		return
	}
	var err error
	pan, pm, st := wk.Guard(func() { _, err = tlparser.ParseSchema(text) })
	c.Count("shipped.parsed", 1)
	c.Distinct("shipped", name)
	if pan {
		c.Viol("C14", idx, "shipped/parser-panic/"+name, pm+" "+st, name)
	} else if err != nil {
		kind := "other"
		if strings.Contains(err.Error(), "unknown comment type") {
			kind = "plain-comment-rejected"
		}
		c.Viol("C14", idx, "shipped/parser-rejects/"+kind+"/"+name, fmt.Sprintf("schemes/%s is rejected by the parser: %v", name, err), name)
	}
}

func c14paramStr(p tlparser.Parameter) string {
	t := p.Type
	if t == "bitflags" {
		return p.Name + ":#"
	}
	if p.IsVector {
		t = "Vector<" + t + ">"
	}
	if p.IsOptional {
		t = fmt.Sprintf("flags.%d?%s", p.BitToTrigger, t)
	}
	return p.Name + ":" + t
}

func c14refParamStr(p *ts.Param) string {
	if p.IsFlagsWord() {
		return p.Name + ":#"
	}
	t := p.Type.String()
	if p.FlagBit >= 0 {
		t = fmt.Sprintf("%s.%d?%s", p.FlagField, p.FlagBit, t)
	}
	return p.Name + ":" + t
}

// c14parseCompare: the tool's parser must extract exactly what the independent parser reads.
func c14parseCompare(c *wk.Ctx, idx int, cs c14case) bool {
	ref, err := ts.Parse(cs.text)
	if err != nil || len(ref.Skipped) > 0 {
		c.Log.Emit(coreInconclusive(fmt.Sprintf("c14: generated schema outside the reference parser's subset: %v %v", err, ref.Skipped)))
		return false
	}
	var got *tlparser.Schema
	pan, pm, st := wk.Guard(func() { got, err = tlparser.ParseSchema(cs.text) })
	if pan {
		c.Viol("C14", idx, "parser/panic/"+st, pm, cs.text)
		return false
	}
	if err != nil {
		kind := "other"
		if strings.Contains(err.Error(), "unknown comment type") {
			kind = "plain-comment-rejected"
		}
		c.Viol("C14", idx, "parser/rejects/"+kind, "a schema inside the documented subset is rejected: "+err.Error(), cs.text)
		return false
	}
	var want []string
	for _, d := range ref.Defs {
		if c14dump.Excluded[d.Name] {
			continue
		}
		var ps []string
		for i := range d.Params {
			ps = append(ps, c14refParamStr(&d.Params[i]))
		}
		kind := "type"
		if d.IsFunc {
			kind = "func"
		}
		want = append(want, fmt.Sprintf("%s %s#%08x [%s] = %s", kind, d.Name, d.ID, strings.Join(ps, " "), d.Result.String()))
	}
	var have []string
	for _, o := range got.Objects {
		var ps []string
		for _, p := range o.Parameters {
			ps = append(ps, c14paramStr(p))
		}
		have = append(have, fmt.Sprintf("type %s#%08x [%s] = %s", o.Name, o.CRC, strings.Join(ps, " "), o.Interface))
	}
	for _, m := range got.Methods {
		var ps []string
		for _, p := range m.Parameters {
			ps = append(ps, c14paramStr(p))
		}
		res := m.Response.Type
		if m.Response.IsList {
			res = "Vector<" + res + ">"
		}
		have = append(have, fmt.Sprintf("func %s#%08x [%s] = %s", m.Name, m.CRC, strings.Join(ps, " "), res))
	}
	sort.Strings(want)
	sort.Strings(have)
	if strings.Join(want, "\n") != strings.Join(have, "\n") {
		diff := ""
		for i := 0; i < len(want) || i < len(have); i++ {
			w, h := "", ""
			if i < len(want) {
				w = want[i]
			}
			if i < len(have) {
				h = have[i]
			}
			if w != h {
				diff = fmt.Sprintf("declared: %s\nparsed:   %s", w, h)
				break
			}
		}
		c.Viol("C14", idx, "parser/differs", "the parser does not extract what the schema declares:\n"+diff, cs.text)
		return false
	}
	c.Count("parser.compared", 1)
	return true
}

// c14generate runs the real tlgen binary N times into fresh directories; output must be byte-identical.
func c14generate(c *wk.Ctx, idx int, cs c14case, tlgen, work string, runs int) bool {
	src := filepath.Join(work, cs.tag+".tl")
	os.WriteFile(src, []byte(cs.text), 0o644)
	var first map[string][]byte
	for run := 0; run < runs; run++ {
		out := filepath.Join(work, cs.tag, fmt.Sprintf("run%d", run))
		if run == 0 {
			out = filepath.Join(work, cs.tag, "telegram")
		}
		os.MkdirAll(out, 0o755)
		if run == runs-1 && run > 0 {
			// the last run writes into a directory that already holds what the tool generated a moment ago from ANOTHER
			// schema (the usual state of a checkout): what is there afterwards must be this schema's output
			prev := filepath.Join(work, cs.tag+".prev.tl")
			os.WriteFile(prev, []byte(c14prevSchema), 0o644)
			exec.Command(tlgen, prev, out).Run()
			c.Count("tlgen.runs_into_used_directory", 1)
		}
		srcArg := src
		if run == 1 {
			// the same schema under another name in another directory, given as a relative path: the output is a
			// function of the schema, not of where the file happens to lie
			alt := filepath.Join(work, cs.tag+"-copy")
			os.MkdirAll(alt, 0o755)
			os.WriteFile(filepath.Join(alt, "schema_copy.tl"), []byte(cs.text), 0o644)
			if rel, err := filepath.Rel(mustGetwd(), filepath.Join(alt, "schema_copy.tl")); err == nil {
				srcArg = rel
			} else {
				srcArg = filepath.Join(alt, "schema_copy.tl")
			}
			c.Count("tlgen.runs_with_schema_at_another_path", 1)
		}
		cmd := exec.Command(tlgen, srcArg, out)
		var stderr bytes.Buffer
		cmd.Stderr = &stderr
		cmd.Stdout = &stderr
		err := cmd.Run()
		c.Count("tlgen.runs", 1)
		if err != nil {
			kind := "error"
			msg := stderr.String()
			switch {
			case strings.Contains(msg, "unknown comment type"):
				kind = "plain-comment-rejected"
			case strings.Contains(msg, "panic:"):
				kind = "panic"
			}
			what := "random schema"
			if strings.HasPrefix(cs.label, "shipped") {
				what = cs.label
			}
			c.Viol("C14", idx, fmt.Sprintf("tlgen/%s/%s", kind, strings.SplitN(cs.label, "/", 2)[0]), fmt.Sprintf("tlgen failed on %s: %v\n%s", what, err, wk.Short(msg, 1500)), wk.Short(cs.text, 4000))
			return false
		}
		files := map[string][]byte{}
		ents, _ := os.ReadDir(out)
		for _, e := range ents {
			b, _ := os.ReadFile(filepath.Join(out, e.Name()))
			files[e.Name()] = b
		}
		if run == 0 {
			first = files
			if len(files) == 0 {
				c.Viol("C14", idx, "tlgen/no-output", "tlgen wrote no files", nil)
				return false
			}
			continue
		}
		for name, b := range first {
			if !bytes.Equal(files[name], b) {
				c.Viol("C14", idx, "tlgen/nondeterministic/"+name, fmt.Sprintf("run %d wrote a different %s than run 0 for the same schema (%d vs %d bytes)", run, name, len(files[name]), len(b)), wk.Short(cs.text, 4000))
				return false
			}
		}
		os.RemoveAll(out)
	}
	c.Count("tlgen.schemas_deterministic", 1)
	return true
}

// c14prevSchema: what the output directory of the last run was generated from before.
const c14prevSchema = `earlierThing#11223344 count:int = EarlierThing;
earlierOne#22334455 = EarlierEnum;
earlierTwo#33445566 = EarlierEnum;
---functions---
earlierCall#44556677 id:long = EarlierThing;
`

const c14stub = `package telegram

import (
	"reflect"

	tl "github.com/xelaj/mtproto/internal/encoding/tl"
)

// Client is the harness stub standing in for the hand-written client the generated methods hang on.
type Client struct{}

func (c *Client) MakeRequest(msg tl.Object) (interface{}, error) { return nil, nil }

func (c *Client) MakeRequestWithHintToDecoder(msg tl.Object, hints ...reflect.Type) (interface{}, error) {
	return nil, nil
}

func VerifClientType() reflect.Type { return reflect.TypeOf(&Client{}) }
`

// c14build compiles the batch; on failure each schema is built alone so that the culprit is named.
func c14build(c *wk.Ctx, cases []c14case, work string, batch bool) {
	if len(cases) == 0 {
		return
	}
	rel, _ := filepath.Rel(harnessDir(), work)
	var imports, entries, args []string
	for _, cs := range cases {
		os.WriteFile(filepath.Join(work, cs.tag, "telegram", "zz_stub.go"), []byte(c14stub), 0o644)
		imports = append(imports, fmt.Sprintf("\t%s \"github.com/xelaj/mtproto/zverif/%s/%s/telegram\"", cs.tag, filepath.ToSlash(rel), cs.tag))
		entries = append(entries, fmt.Sprintf("\t\t%q: %s.VerifClientType(),", cs.tag, cs.tag))
		args = append(args, cs.tag+"="+filepath.Join(work, cs.tag+".tl"))
	}
	mainDir := filepath.Join(work, "dumper")
	os.RemoveAll(mainDir)
	os.MkdirAll(mainDir, 0o755)
	mainSrc := "package main\n\nimport (\n\t\"os\"\n\t\"reflect\"\n\n\t\"github.com/xelaj/mtproto/zverif/c14dump\"\n" + strings.Join(imports, "\n") + "\n)\n\nfunc main() {\n\tc14dump.Run(os.Args[1:], map[string]reflect.Type{\n" + strings.Join(entries, "\n") + "\n\t})\n}\n"
	os.WriteFile(filepath.Join(mainDir, "main.go"), []byte(mainSrc), 0o644)
	bin := filepath.Join(work, "dumper.bin")
	cmd := exec.Command("go", "build", "-tags", "verif", "-o", bin, "./"+filepath.ToSlash(rel)+"/dumper")
	cmd.Dir = harnessDir()
	cmd.Env = append(os.Environ(), "GOFLAGS=-mod=mod", "GOPROXY=off", "GOSUMDB=off", "GOTOOLCHAIN=local")
	out, err := cmd.CombinedOutput()
	c.Count("compile.builds", 1)
	if err != nil {
		if len(cases) > 1 {
			for _, cs := range cases {
				c14build(c, []c14case{cs}, work, false)
			}
			return
		}
		cs := cases[0]
		ci := 0
		fmt.Sscanf(cs.tag, "s%d", &ci)
		kind := "other"
		msg := string(out)
		switch {
		case strings.Contains(msg, "PseudoBool"):
			kind = "undefined-tl.PseudoBool"
		case strings.Contains(msg, "redeclared"):
			kind = "redeclared-identifier"
		case strings.Contains(msg, "undefined:"):
			kind = "undefined-identifier"
		}
		c.Viol("C14", ci, fmt.Sprintf("compile/%s/%s", kind, strings.SplitN(cs.label, "/", 2)[0]), fmt.Sprintf("the package generated from %s does not compile:\n%s", cs.label, wk.Short(msg, 1500)), wk.Short(cs.text, 4000))
		return
	}
	run := exec.Command(bin, args...)
	var so, se bytes.Buffer
	run.Stdout, run.Stderr = &so, &se
	rerr := run.Run()
	os.Remove(bin)
	if rerr != nil {
		if len(cases) > 1 {
			for _, cs := range cases {
				c14build(c, []c14case{cs}, work, false)
			}
			return
		}
		cs := cases[0]
		ci := 0
		fmt.Sscanf(cs.tag, "s%d", &ci)
		c.Viol("C14", ci, "generated-package-panics-at-init/"+strings.SplitN(cs.label, "/", 2)[0], fmt.Sprintf("the program linking the package generated from %s dies: %v\n%s", cs.label, rerr, wk.Short(se.String(), 1500)), wk.Short(cs.text, 4000))
		return
	}
	byTag := map[string]c14case{}
	for _, cs := range cases {
		byTag[cs.tag] = cs
	}
	dec := json.NewDecoder(&so)
	for {
		var f c14dump.Finding
		if dec.Decode(&f) != nil {
			break
		}
		cs := byTag[f.Schema]
		ci := 0
		fmt.Sscanf(f.Schema, "s%d", &ci)
		switch f.Kind {
		case "ok":
			c.Count("compile.schemas_compiled_and_reflected", 1)
			c.Distinct("reflected", f.Schema, f.Detail)
		case "harness":
			c.Log.Emit(coreInconclusive("c14 dumper: " + f.Detail))
		default:
			c.Viol("C14", ci, fmt.Sprintf("generated/%s/%s", f.Kind, strings.SplitN(cs.label, "/", 2)[0]), fmt.Sprintf("%s %s: %s", cs.label, f.Name, f.Detail), wk.Short(cs.text, 4000))
		}
	}
}
