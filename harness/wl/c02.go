package wl

import (
	"bytes"
	"compress/gzip"
	"encoding/binary"
	"fmt"
	"reflect"

	"github.com/xelaj/mtproto/internal/encoding/tl"
	"github.com/xelaj/mtproto/internal/mtproto/objects"
	"github.com/xelaj/mtproto/zverif/bridge"
	ts "github.com/xelaj/mtproto/zverif/ref/tlschema"
	"github.com/xelaj/mtproto/zverif/wk"
)

func init() { wk.Register("c02", c02) }

// c02defs: every definition of the API schema plus the wire-used service definitions.
func c02defs() []*ts.Def {
	var out []*ts.Def
	for _, d := range apiSchema.Defs {
		out = append(out, d)
	}
	for _, d := range mtSchema.Defs {
		if WireUsed[d.Name] {
			out = append(out, d)
		}
	}
	return out
}

func firstDiff(a, b []byte) int {
	i := 0
	for i < len(a) && i < len(b) && a[i] == b[i] {
		i++
	}
	return i
}

// fieldAt names the parameter a byte offset of the reference serialisation falls into (top level only).
func fieldAt(v *ts.Value, off int) string {
	pos := 4
	if off < 4 {
		return "constructor-id"
	}
	for i := range v.Def.Params {
		p := &v.Def.Params[i]
		var w bytes.Buffer
		if p.IsFlagsWord() {
			pos += 4
			if off < pos {
				return "flags-word"
			}
			continue
		}
		if v.Fields[i].Kind == ts.KAbsent {
			continue
		}
		sub := &ts.Value{Kind: ts.KCon, Def: &ts.Def{Name: "_", Params: []ts.Param{{Name: p.Name, Type: p.Type, FlagBit: -1}}}, Fields: []ts.Value{v.Fields[i]}}
		b, err := serializeBare(sub)
		_ = w
		if err != nil {
			return p.Name
		}
		pos += len(b)
		if off < pos {
			return p.Name + ":" + p.Type.String()
		}
	}
	return "past-the-end"
}

func serializeBare(v *ts.Value) ([]byte, error) {
	d := *v.Def
	d.HasID, d.ID = true, 0
	vv := *v
	vv.Def = &d
	b, err := ts.Serialize(&vv)
	if err != nil {
		return nil, err
	}
	return b[4:], nil
}

func c02(c *wk.Ctx) {
	if err := loadSchemas(); err != nil {
		c.Log.Emit(coreInconclusive(err.Error()))
		return
	}
	defs := c02defs()
	c.Count("definitions", int64(len(defs)))
	costs := allSchema.ComputeCosts()
	idx := 0
	perDef := c.Pick(16, 2500)
	boundary := []int{0, 1, 2, 3, 4, 5, 252, 253, 254, 255, 256, 257, 65535, 65536}
	for di, d := range defs {
		if HandCodec[d.Name] {
			if c.Mine(idx) {
				c.Begin(idx, "hand-codec "+d.Name)
				c02hand(c, idx, d)
			}
			idx++
			continue
		}
		bits := d.GroupBits()
		var patterns []map[int]bool
		none, all := map[int]bool{}, map[int]bool{}
		for _, b := range bits {
			all[b] = true
		}
		patterns = append(patterns, none, all)
		if len(bits) <= 10 && !c.Quick() {
			for m := 1; m < (1<<len(bits))-1; m++ {
				p := map[int]bool{}
				for j, b := range bits {
					if m&(1<<j) != 0 {
						p[b] = true
					}
				}
				patterns = append(patterns, p)
			}
		} else {
			for _, b := range bits {
				patterns = append(patterns, map[int]bool{b: true})
			}
		}
		total := len(patterns)
		if total < perDef {
			total = perDef
		}
		for k := 0; k < total; k++ {
			if c.Mine(idx) {
				r := c.Rand(idx)
				o := &ts.GenOpts{R: r, MaxDepth: 2 + r.Intn(3), Costs: costs, ForceStrLen: -1}
				if k < len(patterns) {
					o.Presence = patterns[k]
				} else {
					o.Presence = map[int]bool{}
					for _, b := range bits {
						o.Presence[b] = r.Intn(2) == 0
					}
				}
				if k%2 == 1 {
					o.ForceStrLen = boundary[(di+k)%len(boundary)]
				}
				v := allSchema.Gen(d, o, 0)
				c.Begin(idx, fmt.Sprintf("%s pattern=%v", d.Name, o.Presence))
				c02one(c, idx, d, v, fmt.Sprint(presenceMask(bits, o.Presence)))
				if idx%3001 == 0 {
					c.Sample(map[string]interface{}{"definition": d.Line, "presence": fmt.Sprint(o.Presence)})
				}
			}
			idx++
		}
		// many siblings in one vector (hundreds of cheap elements; all groups present)
		hasVec := false
		for i := range d.Params {
			if d.Params[i].Type.Vector {
				hasVec = true
			}
		}
		if hasVec {
			lens := []int{700}
			if !c.Quick() {
				lens = []int{513, 1500, 6000}
			}
			for _, n := range lens {
				if c.Mine(idx) {
					r := c.Rand(idx)
					o := &ts.GenOpts{R: r, MaxDepth: 1, Costs: costs, ForceStrLen: -1, ForceVecLen: n, Presence: all}
					v := allSchema.Gen(d, o, 0)
					c.Begin(idx, fmt.Sprintf("%s vector-of-%d", d.Name, n))
					c02one(c, idx, d, v, fmt.Sprintf("vec%d", n))
					c.Count("values.with_long_vectors", 1)
				}
				idx++
			}
		}
	}
	// the format limit: 2^24-1 is the longest string, 2^24 must be refused
	for li, n := range []int{1<<24 - 1, 1 << 24, 1<<24 + 1, 1<<24 - 1, 1 << 24, 1<<24 + 1} {
		if c.Mine(idx) {
			// once through a `bytes` parameter ([]byte in Go), once through a `string` parameter (Go string)
			d := allSchema.ByName["upload.saveFilePart"]
			if li >= 3 {
				d = allSchema.ByName["contacts.resolveUsername"]
			}
			if d != nil {
				c.Begin(idx, fmt.Sprintf("limit %d", n))
				o := &ts.GenOpts{R: c.Rand(idx), MaxDepth: 2, Costs: costs, ForceStrLen: n}
				v := allSchema.Gen(d, o, 0)
				gv, err := bridge.Build(v, nil)
				if err != nil {
					c.Viol("C02", idx, "limit/build", err.Error(), n)
				} else {
					var got []byte
					var merr error
					pan, pm, st := wk.Guard(func() { got, merr = tl.Marshal(gv.Interface()) })
					want, werr := ts.Serialize(v)
					switch {
					case pan:
						c.Viol("C02", idx, "limit/panic/"+st, pm, n)
					case n >= 1<<24 && merr == nil:
						c.Viol("C02", idx, "limit/too-long-accepted", fmt.Sprintf("a byte string of %d bytes (>= 2^24) was serialised (%d bytes out) instead of refused", n, len(got)), n)
					case n < 1<<24 && (merr != nil || werr != nil || !bytes.Equal(got, want)):
						c.Viol("C02", idx, "limit/longest-string", fmt.Sprintf("2^24-1 bytes: err=%v", merr), n)
					}
					c.Distinct("limit", n, d.Name)
				}
			}
		}
		idx++
	}
}

func presenceMask(bits []int, p map[int]bool) string {
	s := ""
	for _, b := range bits {
		if p[b] {
			s += "1"
		} else {
			s += "0"
		}
	}
	return s
}

func c02one(c *wk.Ctx, idx int, d *ts.Def, v *ts.Value, mask string) {
	want, err := ts.Serialize(v)
	if err != nil {
		c.Log.Emit(coreInconclusive("reference serialiser: " + err.Error()))
		return
	}
	if len(d.Generics) > 0 {
		if _, ok := bridge.Wrappers[d.Name]; !ok {
			c.Count("wrapper.not_implemented."+d.Name, 1) // C13 reports the missing wrapper
			return
		}
	}
	gv, err := bridge.Build(v, nil)
	if err != nil {
		c.Viol("C02", idx, "build/"+d.Name, "the registered Go type cannot hold a value of the schema line: "+err.Error(), d.Line)
		return
	}
	var got []byte
	var merr error
	pan, pm, st := wk.Guard(func() { got, merr = tl.Marshal(gv.Interface()) })
	if pan {
		c.Viol("C02", idx, "encode/panic/"+st, d.Name+": "+pm, d.Line)
		return
	}
	if merr != nil {
		c.Viol("C02", idx, "encode/error/"+d.Name, merr.Error(), d.Line)
		return
	}
	// the serialisation handed out for the previous case must still be the bytes it was
	if c02prev.b != nil && !bytes.Equal(c02prev.b, c02prev.cp) {
		c.Viol("C02", idx, "encode/earlier-result-overwritten", fmt.Sprintf("the bytes returned for %s changed at offset %d while %s was being serialised", c02prev.name, firstDiff(c02prev.b, c02prev.cp), d.Name), d.Line)
	}
	c02prev.b, c02prev.cp, c02prev.name = got, append([]byte(nil), got...), d.Name
	if !bytes.Equal(got, want) {
		off := firstDiff(got, want)
		fld := fieldAt(v, off)
		shared := sharedGroup(d)
		c.Viol("C02", idx, fmt.Sprintf("encode/bytes/%s/at=%s", d.Name, fld),
			fmt.Sprintf("%s (presence %s, shared-bit groups: %v): library wrote %d bytes, schema says %d; first difference at offset %d in %s\n got  %x\n want %x", d.Name, mask, shared, len(got), len(want), off, fld, clip(got, off), clip(want, off)), d.Line)
	}
	if len(d.Generics) > 0 {
		c.Distinct(d.Name, mask, len(want))
		return // request wrappers are never decoded by a client
	}
	// the other direction: reference bytes → library value
	var obj tl.Object
	var derr error
	pan, pm, st = wk.Guard(func() { obj, derr = tl.DecodeUnknownObject(want) })
	if pan {
		c.Viol("C02", idx, "decode/panic/"+st, d.Name+": "+wk.Short(pm, 300), d.Line)
		return
	}
	if derr != nil {
		c.Viol("C02", idx, "decode/error/"+d.Name, fmt.Sprintf("presence %s: %v", mask, derr), d.Line)
		return
	}
	if err := bridge.Match(reflect.ValueOf(obj), v); err != nil {
		c.Viol("C02", idx, "decode/value/"+d.Name, err.Error(), d.Line)
	} else {
		if c02prev.v != nil {
			if err := bridge.Match(reflect.ValueOf(c02prev.obj), c02prev.v); err != nil {
				c.Viol("C02", idx, "decode/earlier-value-changed", fmt.Sprintf("the %s decoded earlier changed while %s was being decoded: %v", c02prev.v.Def.Name, d.Name, err), d.Line)
			}
		}
		c02prev.obj, c02prev.v = obj, v
	}
	c.Distinct(d.Name, mask, len(want))
}

var c02prev struct {
	b, cp []byte
	name  string
	obj   tl.Object
	v     *ts.Value
}

func sharedGroup(d *ts.Def) bool {
	n := map[int]int{}
	for i := range d.Params {
		if b := d.Params[i].FlagBit; b >= 0 && d.Params[i].Type.Name != "true" {
			n[b]++
		}
	}
	for _, k := range n {
		if k > 1 {
			return true
		}
	}
	return false
}

func clip(b []byte, off int) []byte {
	lo := off - 8
	if lo < 0 {
		lo = 0
	}
	hi := off + 24
	if hi > len(b) {
		hi = len(b)
	}
	return b[lo:hi]
}

// c02hand: definitions with hand-written codecs are checked from reference-built bytes.
func c02hand(c *wk.Ctx, idx int, d *ts.Def) {
	r := c.Rand(idx)
	costs := allSchema.ComputeCosts()
	inner := func() (*ts.Value, []byte) {
		dd := apiSchema.Defs[r.Intn(len(apiSchema.Defs))]
		for len(dd.Generics) > 0 {
			dd = apiSchema.Defs[r.Intn(len(apiSchema.Defs))]
		}
		v := allSchema.Gen(dd, &ts.GenOpts{R: r, MaxDepth: 2, Costs: costs, ForceStrLen: -1}, 0)
		b, _ := ts.Serialize(v)
		return v, b
	}
	switch d.Name {
	case "gzip_packed":
		for k := 0; k < 24; k++ {
			v, b := inner()
			if k >= 20 {
				// what servers pack is large: a file part of 512 KiB / 1 MiB and a little more, inside its result object
				if d := allSchema.ByName["upload.file"]; d != nil {
					v = allSchema.Gen(d, &ts.GenOpts{R: r, MaxDepth: 2, Costs: costs, ForceStrLen: []int{512 << 10, 1<<20 - 28, 1 << 20, 3<<20 + 5}[k-20]}, 0)
					b, _ = ts.Serialize(v)
				}
			}
			var z bytes.Buffer
			zw := gzip.NewWriter(&z)
			zw.Write(b)
			zw.Close()
			var w bytes.Buffer
			binary.Write(&w, binary.LittleEndian, uint32(d.ID))
			w.Write(tlBytes(z.Bytes()))
			var obj tl.Object
			var err error
			pan, pm, st := wk.Guard(func() { obj, err = tl.DecodeUnknownObject(w.Bytes()) })
			c.Count("evaluations", 1)
			if pan || err != nil {
				c.Viol("C02", idx, "hand/gzip_packed/decode", fmt.Sprint(pm, err, st), v.Def.Name)
				continue
			}
			gz, ok := obj.(*objects.GzipPacked)
			if !ok {
				c.Viol("C02", idx, "hand/gzip_packed/type", fmt.Sprintf("%T", obj), nil)
				continue
			}
			if err := bridge.Match(reflect.ValueOf(gz.Obj), v); err != nil {
				c.Viol("C02", idx, "hand/gzip_packed/value", err.Error(), v.Def.Name)
			}
			c.Distinct("gzip", v.Def.Name, k)
		}
	case "msg_container":
		for k := 0; k < 20; k++ {
			n := r.Intn(5)
			var w bytes.Buffer
			binary.Write(&w, binary.LittleEndian, uint32(d.ID))
			binary.Write(&w, binary.LittleEndian, uint32(n))
			type item struct {
				id   int64
				seq  int32
				body []byte
			}
			var items []item
			for i := 0; i < n; i++ {
				_, b := inner()
				it := item{pick64(r) | 1, int32(r.Intn(1000)), b}
				items = append(items, it)
				binary.Write(&w, binary.LittleEndian, it.id)
				binary.Write(&w, binary.LittleEndian, it.seq)
				binary.Write(&w, binary.LittleEndian, uint32(len(b)))
				w.Write(b)
			}
			var obj tl.Object
			var err error
			pan, pm, st := wk.Guard(func() { obj, err = tl.DecodeUnknownObject(w.Bytes()) })
			c.Count("evaluations", 1)
			if pan || err != nil {
				c.Viol("C02", idx, "hand/msg_container/decode", fmt.Sprint(pm, err, st), n)
				continue
			}
			mc, ok := obj.(*objects.MessageContainer)
			if !ok || len(*mc) != n {
				c.Viol("C02", idx, "hand/msg_container/shape", fmt.Sprintf("%T", obj), n)
				continue
			}
			for i, it := range items {
				m := (*mc)[i]
				if m.MsgID != it.id || m.SeqNo != it.seq || !bytes.Equal(m.Msg, it.body) {
					c.Viol("C02", idx, "hand/msg_container/item", fmt.Sprintf("item %d differs", i), n)
				}
			}
			c.Distinct("container", n, k)
		}
	default:
		c.Count("hand.informational."+d.Name, 1)
	}
}

func tlBytes(b []byte) []byte {
	var out []byte
	if len(b) <= 253 {
		out = append(out, byte(len(b)))
	} else {
		out = append(out, 254, byte(len(b)), byte(len(b)>>8), byte(len(b)>>16))
	}
	out = append(out, b...)
	for len(out)%4 != 0 {
		out = append(out, 0)
	}
	return out
}
