package wl

import (
	"bytes"
	"fmt"
	"math/rand"
	"strings"

	"github.com/xelaj/mtproto/internal/mtproto/messages"
	"github.com/xelaj/mtproto/zverif/ref/mtp"
	"github.com/xelaj/mtproto/zverif/wk"
)

func init() { wk.Register("c03", c03) }

type stubInfo struct {
	key     []byte
	salt    int64
	session int64
	seq     int32
}

// results of the previous calls of the sequential phase, held by the caller and looked at again after the next call
var c03held struct {
	heldMsg  *messages.Encrypted
	heldBody []byte
	heldPkt  []byte
	heldPkt0 []byte
}

func (s *stubInfo) GetSessionID() int64  { return s.session }
func (s *stubInfo) GetSeqNo() int32      { return s.seq }
func (s *stubInfo) GetServerSalt() int64 { return s.salt }
func (s *stubInfo) GetAuthKey() []byte   { return s.key }

var int64Pool = []int64{0, 1, -1, 2, 255, 256, -256, 1 << 31, -(1 << 31), 1<<63 - 1, -1 << 63, 0x0102030405060708, -0x0102030405060708}

func pick64(r *rand.Rand) int64 {
	if r.Intn(3) == 0 {
		return int64Pool[r.Intn(len(int64Pool))]
	}
	return int64(r.Uint64())
}

func authKey(r *rand.Rand) ([]byte, string) {
	switch r.Intn(24) {
	case 0:
		return cornerKey("head"), "keyid-head-zero"
	case 1:
		return cornerKey("tail"), "keyid-tail-zero"
	}
	return keyLike(r, 256)
}

func c03(c *wk.Ctx) {
	idx := 0
	// every body length 0..N (every padding residue many times), then sampled lengths up to 2^16
	dense := c.Pick(4096, 65536)
	var lens []int
	for n := 0; n <= dense; n++ {
		lens = append(lens, n)
	}
	sparse := c.Pick(300, 0)
	lr := rand.New(rand.NewSource(c.Seed))
	for i := 0; i < sparse; i++ {
		lens = append(lens, dense+1+lr.Intn(65537-dense))
	}
	lens = append(lens, 65535, 65536)
	// what real traffic carries beyond the dense range: file parts of 512 KiB and 1 MiB inside their result objects,
	// and the neighbourhood of the powers of two up to the transport's frame limit
	for _, b := range []int{1 << 17, 1 << 19, 1 << 20, 1 << 21, 1 << 22} {
		for _, d := range []int{-65, -64, -33, -32, -1, 0, 1, 28, 64} {
			lens = append(lens, b+d)
		}
	}
	if !c.Quick() {
		lens = append(lens, 1<<23, 1<<24-64, 1<<24-33)
	}
	reps := c.Pick(2, 8)
	for _, n := range lens {
		for rep := 0; rep < reps; rep++ {
			if c.Mine(idx) {
				r := c.Rand(idx)
				key, ks := authKey(r)
				info := &stubInfo{key: key, salt: pick64(r), session: pick64(r), seq: int32(r.Intn(1<<20) * 2)}
				if r.Intn(10) == 0 {
					info.seq = 0
				}
				msgID := (pick64(r) &^ 3)
				body := rbytes(r, n)
				ack := rep%2 == 0
				c.Begin(idx, fmt.Sprintf("envelope len=%d key=%s ack=%v", n, ks, ack))
				c03out(c, idx, info, msgID, body, ack, ks)
				c03in(c, idx, r, info, body, ks)
				c03plain(c, idx, r, body)
				if idx%1500 == 0 {
					c.Sample(map[string]interface{}{"body_len": n, "key_shape": ks, "salt": info.salt, "session": info.session, "msg_id": msgID, "seq_no": info.seq, "ack": ack})
				}
			}
			idx++
		}
	}
	// sealing and opening from several goroutines at once (the client's send and receive paths do that)
	for k := 0; k < c.Pick(8, 80); k++ {
		if c.Mine(idx) {
			c.Begin(idx, "envelope concurrent")
			res := concurrently(8, int64(idx), func(g int, r *rand.Rand) string {
				for it := 0; it < 250; it++ {
					key := rbytes(r, 256)
					info := &stubInfo{key: key, salt: pick64(r), session: pick64(r), seq: int32(r.Intn(1<<20) * 2)}
					body := rbytes(r, r.Intn(120))
					id := pick64(r) &^ 3
					if g%2 == 0 {
						m := &messages.Encrypted{Msg: body, MsgID: id}
						pkt, err := m.Serialize(info, false)
						if err != nil {
							return "out-error: " + err.Error()
						}
						in, oerr := mtp.Open(key, pkt, 0)
						if oerr != nil || in.MsgID != id || in.Salt != info.salt || in.Session != info.session || !bytes.Equal(in.Body, body) {
							return fmt.Sprintf("out-not-openable: goroutine %d iteration %d: the reference server cannot open a packet sealed while other goroutines seal and open: %v", g, it, oerr)
						}
					} else {
						in := mtp.Inner{Salt: pick64(r), Session: pick64(r), MsgID: id | 1, SeqNo: int32(r.Intn(1000)), Body: body}
						pkt := mtp.Seal(key, in, 8, rbytes(r, (16-(32+len(body))%16)%16))
						m, err := messages.DeserializeEncrypted(pkt, key)
						if err != nil || m.MsgID != in.MsgID || m.Salt != in.Salt || !bytes.Equal(m.Msg, body) {
							return fmt.Sprintf("in-refused: goroutine %d iteration %d: conformant packet not opened while other goroutines seal and open: %v", g, it, err)
						}
					}
				}
				return ""
			})
			c.Count("evaluations", 8*250)
			for _, s := range res {
				if s != "" {
					c.Viol("C03", idx, "concurrent/"+strings.SplitN(s, ":", 2)[0], s, nil)
				}
			}
			c.Distinct("concurrent", k)
		}
		idx++
	}
}

// client -> server: the library seals, the reference server opens.
func c03out(c *wk.Ctx, idx int, info *stubInfo, msgID int64, body []byte, ack bool, ks string) {
	m := &messages.Encrypted{Msg: body, MsgID: msgID, AuthKeyHash: mtp.AuthKeyID(info.key)}
	switch len(body) % 4 {
	case 1:
		m.AuthKeyHash = nil // the field is not part of the statement: the id on the wire derives from the auth key
	case 2:
		m.AuthKeyHash = []byte{1, 2, 3, 4, 5, 6, 7, 8} // stale value (e.g. kept from before a re-keying)
	}
	var pkt []byte
	var err error
	pan, pm, st := wk.Guard(func() { pkt, err = m.Serialize(info, ack) })
	if pan {
		c.Viol("C03", idx, "out/panic/"+st, pm, len(body))
		return
	}
	if err != nil {
		c.Viol("C03", idx, "out/error", err.Error(), len(body))
		return
	}
	if c03held.heldPkt != nil && !bytes.Equal(c03held.heldPkt, c03held.heldPkt0) {
		c.Viol("C03", idx, "out/earlier-packet-changed", fmt.Sprintf("the packet (%d bytes) sealed by the previous call changed when the next message (body %d bytes) was sealed", len(c03held.heldPkt0), len(body)), nil)
	}
	c03held.heldPkt, c03held.heldPkt0 = pkt, append([]byte(nil), pkt...)
	in, oerr := mtp.Open(info.key, pkt, 0)
	if oerr != nil {
		sig := "out/not-openable"
		if _, e8 := mtp.Open(info.key, pkt, 8); e8 == nil {
			sig = "out/wrong-direction-kdf"
		}
		c.Viol("C03", idx, sig, fmt.Sprintf("reference server cannot open the packet (body %d bytes, padding residue %d): %v", len(body), (32+len(body))%16, oerr), len(body))
		return
	}
	wantSeq := info.seq
	if ack {
		wantSeq |= 1
	}
	switch {
	case in.Salt != info.salt:
		c.Viol("C03", idx, "out/salt", fmt.Sprintf("salt %d, want %d", in.Salt, info.salt), nil)
	case in.Session != info.session:
		c.Viol("C03", idx, "out/session", fmt.Sprintf("session %d, want %d", in.Session, info.session), nil)
	case in.MsgID != msgID:
		c.Viol("C03", idx, "out/msg_id", fmt.Sprintf("msg_id %d, want %d", in.MsgID, msgID), nil)
	case in.SeqNo != wantSeq:
		c.Viol("C03", idx, fmt.Sprintf("out/seq_no/ack=%v", ack), fmt.Sprintf("seq_no %d, want %d", in.SeqNo, wantSeq), nil)
	case !bytes.Equal(in.Body, body):
		c.Viol("C03", idx, "out/body", fmt.Sprintf("body differs (len %d vs %d)", len(in.Body), len(body)), nil)
	case in.PadLen != (16-(32+len(body))%16)%16:
		c.Viol("C03", idx, "out/padding", fmt.Sprintf("padding %d for body %d", in.PadLen, len(body)), nil)
	}
	c.Count(fmt.Sprintf("out.pad.%02d", in.PadLen), 1)
	c.Distinct("out", len(body), ks, ack)
}

// server -> client: the reference server seals, the library opens.
func c03in(c *wk.Ctx, idx int, r *rand.Rand, info *stubInfo, body []byte, ks string) {
	in := mtp.Inner{Salt: pick64(r), Session: pick64(r), MsgID: (pick64(r) &^ 3) | 1, SeqNo: int32(r.Intn(1 << 20))}
	if r.Intn(2) == 0 {
		in.MsgID |= 3
	}
	in.Body = body
	pad := rbytes(r, (16-(32+len(body))%16)%16)
	pkt := mtp.Seal(info.key, in, 8, pad)
	p0 := append([]byte{}, pkt...)
	var m *messages.Encrypted
	var err error
	pan, pm, st := wk.Guard(func() { m, err = messages.DeserializeEncrypted(pkt, info.key) })
	if pan {
		c.Viol("C03", idx, "in/panic/"+st, pm, len(body))
		return
	}
	if err != nil {
		c.Viol("C03", idx, "in/refused", fmt.Sprintf("conformant packet refused (body %d, padding %d): %v", len(body), len(pad), err), len(body))
		return
	}
	switch {
	case m.Salt != in.Salt:
		c.Viol("C03", idx, "in/salt", fmt.Sprintf("salt %d, want %d", m.Salt, in.Salt), nil)
	case m.SessionID != in.Session:
		c.Viol("C03", idx, "in/session", "", nil)
	case m.MsgID != in.MsgID:
		c.Viol("C03", idx, "in/msg_id", "", nil)
	case m.SeqNo != in.SeqNo:
		c.Viol("C03", idx, "in/seq_no", "", nil)
	case !bytes.Equal(m.Msg, body):
		c.Viol("C03", idx, "in/body", fmt.Sprintf("body differs (len %d vs %d)", len(m.Msg), len(body)), nil)
	}
	if !bytes.Equal(pkt, p0) {
		c.Viol("C03", idx, "in/modified-input", "", nil)
	}
	// the message opened by the previous call is still in the caller's hands (the receive loop hands it on to
	// another goroutine): opening this packet must not have changed it
	if c03held.heldMsg != nil && !bytes.Equal(c03held.heldMsg.Msg, c03held.heldBody) {
		c.Viol("C03", idx, "in/earlier-message-changed", fmt.Sprintf("the body (%d bytes) of the message opened by the previous call changed when the next packet (body %d bytes) was opened", len(c03held.heldBody), len(body)), nil)
	}
	c03held.heldMsg, c03held.heldBody = m, append([]byte(nil), body...)
	c.Distinct("in", len(body), ks)
}

func c03plain(c *wk.Ctx, idx int, r *rand.Rand, body []byte) {
	if len(body) > 4096 {
		return
	}
	id := pick64(r) &^ 3
	u := &messages.Unencrypted{Msg: body, MsgID: id}
	var pkt []byte
	pan, pm, st := wk.Guard(func() { pkt, _ = u.Serialize(&stubInfo{}) })
	if pan {
		c.Viol("C03", idx, "plain/panic/"+st, pm, nil)
		return
	}
	gid, gb, err := mtp.OpenPlain(pkt)
	if err != nil || gid != id || !bytes.Equal(gb, body) {
		c.Viol("C03", idx, "plain/out", fmt.Sprintf("err=%v id=%d want %d", err, gid, id), nil)
	}
	sid := id | 1
	var m *messages.Unencrypted
	pan, pm, st = wk.Guard(func() { m, err = messages.DeserializeUnencrypted(mtp.SealPlain(sid, body)) })
	if pan {
		c.Viol("C03", idx, "plain/panic/"+st, pm, nil)
		return
	}
	if err != nil || m.MsgID != sid || !bytes.Equal(m.Msg, body) {
		c.Viol("C03", idx, "plain/in", fmt.Sprintf("err=%v", err), nil)
	}
}
