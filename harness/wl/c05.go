package wl

import (
	"bytes"
	"fmt"
	"math/big"
	"math/rand"
	"strings"
	"sync"

	ige "github.com/xelaj/mtproto/internal/aes_ige"
	"github.com/xelaj/mtproto/zverif/ref/mtp"
	"github.com/xelaj/mtproto/zverif/wk"
)

func init() { wk.Register("c05", c05) }

func rbytes(r *rand.Rand, n int) []byte {
	b := make([]byte, n)
	r.Read(b)
	return b
}

// keyLike returns n bytes from a pool of shapes: random, all-zero, all-0xff, k leading zero bytes.
func keyLike(r *rand.Rand, n int) ([]byte, string) {
	b := rbytes(r, n)
	switch r.Intn(8) {
	case 0:
		return make([]byte, n), "zero"
	case 1:
		return bytes.Repeat([]byte{0xff}, n), "ff"
	case 2:
		b[0] = 0
		return b, "lz1"
	case 3:
		b[0], b[1] = 0, 0
		return b, "lz2"
	case 4:
		b[0], b[1], b[2] = 0, 0, 0
		return b, "lz3"
	}
	if b[0] == 0 {
		b[0] = 1
	}
	return b, "rnd"
}

func c05(c *wk.Ctx) {
	idx := 0
	maxBlocks := c.Pick(256, 4096)
	// ---- 1. block loop vs the IGE definition, every block count, several keys each
	reps := c.Pick(6, 96)
	for nb := 1; nb <= maxBlocks; nb++ {
		for rep := 0; rep < reps; rep++ {
			if c.Mine(idx) {
				r := c.Rand(idx)
				key, ks := keyLike(r, 32)
				iv, is := keyLike(r, 32)
				data := rbytes(r, nb*16)
				if rep == 1 {
					data = make([]byte, nb*16)
				}
				c.Begin(idx, fmt.Sprintf("ige blocks=%d key=%x iv=%x", nb, key, iv))
				c05ige(c, idx, key, iv, data, ks+"/"+is)
			}
			idx++
		}
	}
	// ---- 2. refused lengths
	badLens := []int{}
	for n := 0; n < 48; n++ {
		badLens = append(badLens, n)
	}
	for _, b := range []int{64, 160, 256, 1024, 4096, 65536} {
		badLens = append(badLens, b-1, b+1, b+8, b+15)
	}
	for _, n := range badLens {
		for _, enc := range []bool{true, false} {
			if c.Mine(idx) {
				r := c.Rand(idx)
				key, iv, data := rbytes(r, 32), rbytes(r, 32), rbytes(r, n)
				c.Begin(idx, fmt.Sprintf("ige badlen n=%d enc=%v", n, enc))
				out := make([]byte, n+16)
				for i := range out {
					out[i] = 0x5A
				}
				d0 := append([]byte{}, data...)
				var err error
				pan, msg, st := wk.Guard(func() { err = ige.VerifIGE(enc, data, out, key, iv) })
				bad := n == 0 || n%16 != 0
				if bad && !pan && err != nil {
					// a refused call leaves the caller's buffers alone: nothing of the output buffer is written
					for i := range out {
						if out[i] != 0x5A {
							c.Viol("C05", idx, "ige/badlen-refused-but-output-written", fmt.Sprintf("input of length %d (enc=%v) is refused, but byte %d of the caller's output buffer was written before that", n, enc, i), n)
							break
						}
					}
					if !bytes.Equal(data, d0) {
						c.Viol("C05", idx, "ige/badlen-refused-but-input-modified", fmt.Sprintf("length %d", n), n)
					}
				}
				switch {
				case pan:
					c.Viol("C05", idx, "ige/panic/"+st, fmt.Sprintf("len %d: %s", n, msg), n)
				case bad && err == nil:
					c.Viol("C05", idx, fmt.Sprintf("ige/badlen-accepted/zero=%v", n == 0), fmt.Sprintf("input of length %d accepted (enc=%v)", n, enc), n)
				case !bad && err != nil:
					c.Viol("C05", idx, "ige/goodlen-refused", fmt.Sprintf("input of length %d refused: %v", n, err), n)
				}
				c.Distinct("badlen", n, enc)
			}
			idx++
		}
	}
	// ---- 3. message-level wrappers Encrypt / Decrypt
	maxMsg := c.Pick(2048, 16384)
	for n := 1; n <= maxMsg; n++ {
		if c.Mine(idx) {
			r := c.Rand(idx)
			ak := rbytes(r, 256)
			msg := rbytes(r, n)
			c.Begin(idx, fmt.Sprintf("wrap len=%d", n))
			c05wrap(c, idx, ak, msg)
		}
		idx++
	}
	// ---- 4. key-exchange wrappers, every payload length (so every residue of (20+len) mod 16)
	maxPay := c.Pick(1024, 4096)
	reps = c.Pick(2, 6)
	for n := 0; n <= maxPay; n++ {
		for rep := 0; rep < reps; rep++ {
			if c.Mine(idx) {
				r := c.Rand(idx)
				nn, ns := keyLike(r, 32)
				sn, ss := keyLike(r, 16)
				pay := rbytes(r, n)
				c.Begin(idx, fmt.Sprintf("temp len=%d new_nonce=%x server_nonce=%x", n, nn, sn))
				c05temp(c, idx, nn, sn, pay, ns, ss)
			}
			idx++
		}
	}
	// ---- 5. the caller reuses its own buffers: the same key/iv/data/out slices, new contents every round
	for k := 0; k < c.Pick(16, 200); k++ {
		if c.Mine(idx) {
			r := c.Rand(idx)
			c.Begin(idx, "ige reused caller buffers")
			key, iv := make([]byte, 32), make([]byte, 32)
			data, out := make([]byte, 16*8), make([]byte, 16*8)
			for round := 0; round < 24; round++ {
				switch r.Intn(4) { // which of the buffers get new contents this round
				case 0:
					r.Read(key)
				case 1:
					r.Read(iv)
				case 2:
					r.Read(key)
					r.Read(iv)
				}
				r.Read(data)
				nb := 1 + r.Intn(8)
				want, _ := mtp.IGEEncrypt(key, iv, data[:nb*16])
				var err error
				pan, msg, st := wk.Guard(func() { err = ige.VerifIGE(true, data[:nb*16], out[:nb*16], key, iv) })
				c.Count("evaluations", 1)
				if pan || err != nil {
					c.Viol("C05", idx, "reuse/panic-or-error/"+st, fmt.Sprint(msg, err), round)
					break
				}
				if !bytes.Equal(out[:nb*16], want) {
					c.Viol("C05", idx, "reuse/encrypt-mismatch", fmt.Sprintf("round %d with the caller's key/iv buffers refilled in place: ciphertext is not IGE(key, iv, data); key=%x iv=%x", round, key, iv), fmt.Sprintf("%x", data[:nb*16]))
					break
				}
				back := make([]byte, nb*16)
				pan, msg, st = wk.Guard(func() { err = ige.VerifIGE(false, want, back, key, iv) })
				if pan || err != nil || !bytes.Equal(back, data[:nb*16]) {
					c.Viol("C05", idx, "reuse/decrypt-mismatch", fmt.Sprintf("round %d: %v %v", round, msg, err), nil)
					break
				}
			}
			c.Distinct("reuse", k)
		}
		idx++
	}
	// ---- 6. several goroutines at once, each with its own keys (send and receive paths run concurrently)
	for k := 0; k < c.Pick(6, 60); k++ {
		if c.Mine(idx) {
			c.Begin(idx, "ige concurrent")
			res := concurrently(8, int64(idx), func(g int, r *rand.Rand) string {
				for it := 0; it < 300; it++ {
					key, iv := rbytes(r, 32), rbytes(r, 32)
					data := rbytes(r, 16*(1+r.Intn(6)))
					want, _ := mtp.IGEEncrypt(key, iv, data)
					out := make([]byte, len(data))
					if err := ige.VerifIGE(true, data, out, key, iv); err != nil || !bytes.Equal(out, want) {
						return fmt.Sprintf("encrypt-mismatch: goroutine %d iteration %d err=%v", g, it, err)
					}
					ak, msg := rbytes(r, 256), rbytes(r, 1+r.Intn(200))
					ct, err := ige.Encrypt(msg, ak)
					if err != nil {
						return "wrap-error: " + err.Error()
					}
					kk, ii := mtp.KDF(ak, mtp.MsgKey(msg), 0)
					pl, derr := mtp.IGEDecrypt(kk, ii, ct)
					if derr != nil || len(pl) < len(msg) || !bytes.Equal(pl[:len(msg)], msg) {
						return fmt.Sprintf("wrap-not-openable: goroutine %d iteration %d", g, it)
					}
					nn, sn := rbytes(r, 32), rbytes(r, 16)
					tk, tiv := ige.VerifTempKeys(new(big.Int).SetBytes(nn), new(big.Int).SetBytes(sn))
					rk, riv := mtp.TempKeys(nn, sn)
					if !bytes.Equal(tk, rk) || !bytes.Equal(tiv, riv) {
						return fmt.Sprintf("temp-keys-mismatch: goroutine %d iteration %d", g, it)
					}
				}
				return ""
			})
			c.Count("evaluations", 8*300*3)
			for _, s := range res {
				if s != "" {
					c.Viol("C05", idx, "concurrent/"+strings.SplitN(s, ":", 2)[0], "8 goroutines with keys of their own: "+s, nil)
				}
			}
			c.Distinct("concurrent", k)
		}
		idx++
	}
}

// concurrently runs f in n goroutines released together; a panic inside one is its result.
func concurrently(n int, seed int64, f func(g int, r *rand.Rand) string) []string {
	res := make([]string, n)
	start := make(chan struct{})
	var wg sync.WaitGroup
	for g := 0; g < n; g++ {
		wg.Add(1)
		go func(g int) {
			defer wg.Done()
			defer func() {
				if p := recover(); p != nil {
					res[g] = fmt.Sprintf("panic: %v", p)
				}
			}()
			r := rand.New(rand.NewSource(seed*1009 + int64(g)))
			<-start
			res[g] = f(g, r)
		}(g)
	}
	close(start)
	wg.Wait()
	return res
}

func c05ige(c *wk.Ctx, idx int, key, iv, data []byte, shape string) {
	k0, i0, d0 := append([]byte{}, key...), append([]byte{}, iv...), append([]byte{}, data...)
	want, _ := mtp.IGEEncrypt(key, iv, data)
	out := make([]byte, len(data))
	var err error
	pan, msg, st := wk.Guard(func() { err = ige.VerifIGE(true, data, out, key, iv) })
	nb := len(data) / 16
	bucket := "n>2"
	if nb <= 2 {
		bucket = fmt.Sprint("n=", nb)
	}
	if pan {
		c.Viol("C05", idx, "ige/panic/"+st, msg, nil)
		return
	}
	if err != nil {
		c.Viol("C05", idx, "ige/encrypt-error", err.Error(), nil)
		return
	}
	if !bytes.Equal(out, want) {
		first := 0
		for first < len(out) && out[first] == want[first] {
			first++
		}
		c.Viol("C05", idx, "ige/encrypt-mismatch/"+bucket, fmt.Sprintf("%d blocks, first differing block %d; key=%x iv=%x", nb, first/16, key, iv), fmt.Sprintf("%x", data))
	}
	if !bytes.Equal(key, k0) || !bytes.Equal(iv, i0) || !bytes.Equal(data, d0) {
		c.Viol("C05", idx, "ige/encrypt-modified-caller-buffer", fmt.Sprintf("key changed=%v iv changed=%v data changed=%v", !bytes.Equal(key, k0), !bytes.Equal(iv, i0), !bytes.Equal(data, d0)), nil)
		copy(key, k0)
		copy(iv, i0)
		copy(data, d0)
	}
	// decrypt the reference ciphertext
	ct := append([]byte{}, want...)
	back := make([]byte, len(ct))
	pan, msg, st = wk.Guard(func() { err = ige.VerifIGE(false, ct, back, key, iv) })
	if pan {
		c.Viol("C05", idx, "ige/panic/"+st, msg, nil)
		return
	}
	if err != nil || !bytes.Equal(back, data) {
		c.Viol("C05", idx, "ige/decrypt-mismatch/"+bucket, fmt.Sprintf("%d blocks err=%v key=%x iv=%x", nb, err, key, iv), fmt.Sprintf("%x", ct))
	}
	if !bytes.Equal(key, k0) || !bytes.Equal(iv, i0) || !bytes.Equal(ct, want) {
		c.Viol("C05", idx, "ige/decrypt-modified-caller-buffer", "key/iv/data changed by decrypt", nil)
	}
	c.Distinct("ige", nb, shape)
	if idx%500 == 0 {
		c.Sample(map[string]interface{}{"kind": "ige", "blocks": nb, "key": fmt.Sprintf("%x", key), "iv": fmt.Sprintf("%x", iv), "shape": shape})
	}
}

func c05wrap(c *wk.Ctx, idx int, ak, msg []byte) {
	// the message is handed over as a sub-slice of a larger buffer: what lies behind it is the caller's memory too
	backing := make([]byte, len(msg)+48)
	for i := range backing {
		backing[i] = 0xA5
	}
	copy(backing, msg)
	msg = backing[:len(msg)]
	m0 := append([]byte{}, msg...)
	a0 := append([]byte{}, ak...)
	var out []byte
	var err error
	pan, pm, st := wk.Guard(func() { out, err = ige.Encrypt(msg, ak) })
	if pan {
		c.Viol("C05", idx, "wrap/panic/"+st, pm, len(msg))
		return
	}
	if err != nil {
		c.Viol("C05", idx, "wrap/encrypt-error", err.Error(), len(msg))
		return
	}
	wantLen := (len(msg) + 15) / 16 * 16
	if len(out) != wantLen {
		c.Viol("C05", idx, fmt.Sprintf("wrap/encrypt-length/residue=%d", len(msg)%16), fmt.Sprintf("len(msg)=%d: output %d bytes, want %d", len(msg), len(out), wantLen), len(msg))
		return
	}
	k, iv := mtp.KDF(ak, mtp.MsgKey(msg), 0)
	pl, derr := mtp.IGEDecrypt(k, iv, out)
	if derr != nil || !bytes.Equal(pl[:len(msg)], msg) {
		c.Viol("C05", idx, "wrap/encrypt-not-openable", fmt.Sprintf("len=%d: reference decryption under KDF(x=0) does not give the message back (err=%v)", len(msg), derr), len(msg))
	}
	if !bytes.Equal(msg, m0) || !bytes.Equal(ak, a0) {
		c.Viol("C05", idx, "wrap/encrypt-modified-caller-buffer", "", nil)
	}
	for i := len(msg); i < len(backing); i++ {
		if backing[i] != 0xA5 {
			c.Viol("C05", idx, "wrap/encrypt-wrote-behind-callers-slice", fmt.Sprintf("len(msg)=%d: byte %d behind the message (spare capacity of the caller's buffer) was overwritten", len(msg), i-len(msg)), len(msg))
			break
		}
	}
	// Decrypt: server->client direction (x=8)
	padded := append(append([]byte{}, msg...), make([]byte, wantLen-len(msg))...)
	mk := mtp.MsgKey(msg)
	k8, iv8 := mtp.KDF(ak, mk, 8)
	ct, _ := mtp.IGEEncrypt(k8, iv8, padded)
	ct0 := append([]byte{}, ct...)
	var dec []byte
	pan, pm, st = wk.Guard(func() { dec, err = ige.Decrypt(ct, ak, mk) })
	if pan {
		c.Viol("C05", idx, "wrap/panic/"+st, pm, len(msg))
		return
	}
	if err != nil || !bytes.Equal(dec, padded) {
		c.Viol("C05", idx, "wrap/decrypt-mismatch", fmt.Sprintf("len=%d err=%v", len(msg), err), len(msg))
	}
	if !bytes.Equal(ct, ct0) {
		c.Viol("C05", idx, "wrap/decrypt-modified-caller-buffer", "", nil)
	}
	c.Distinct("wrap", len(msg))
}

func lz(b []byte) int {
	n := 0
	for n < len(b) && b[n] == 0 {
		n++
	}
	return n
}

func c05temp(c *wk.Ctx, idx int, newNonce, serverNonce, pay []byte, ns, ss string) {
	nnI := new(big.Int).SetBytes(newNonce)
	snI := new(big.Int).SetBytes(serverNonce)
	if idx%2 == 0 { // a caller that keeps one big.Int per nonce and sets it in place for the next exchange / retry
		nnI = c05reusedNew.SetBytes(newNonce)
		snI = c05reusedSrv.SetBytes(serverNonce)
	}
	zsig := fmt.Sprintf("lz_new=%d/lz_srv=%d", min(lz(newNonce), 1), min(lz(serverNonce), 1))
	if ns == "zero" || ss == "zero" {
		zsig += "/allzero"
	}
	res := (20 + len(pay)) % 16
	// derived keys
	var k, iv []byte
	pan, pm, st := wk.Guard(func() { k, iv = ige.VerifTempKeys(nnI, snI) })
	rk, riv := mtp.TempKeys(newNonce, serverNonce)
	if pan {
		c.Viol("C05", idx, "temp/keys-panic/"+st+"/"+zsig, pm, nil)
	} else if !bytes.Equal(k, rk) || !bytes.Equal(iv, riv) {
		c.Viol("C05", idx, "temp/keys-mismatch/"+zsig, fmt.Sprintf("new_nonce=%x server_nonce=%x", newNonce, serverNonce), nil)
	}
	// a) peer-sealed with every legal padding amount that block-aligns
	padLen := (16 - res) % 16
	r := rand.New(rand.NewSource(int64(idx)))
	enc, err := mtp.SealTemp(newNonce, serverNonce, pay, rbytes(r, padLen))
	if err != nil {
		panic(err)
	}
	var got []byte
	pan, pm, st = wk.Guard(func() { got = ige.DecryptMessageWithTempKeys(enc, nnI, snI) })
	if pan {
		c.Viol("C05", idx, fmt.Sprintf("temp/decrypt-panic/residue0=%v/%s", res == 0, zsig), fmt.Sprintf("payload len %d (20+len mod 16 = %d): %s [%s]", len(pay), res, pm, st), len(pay))
	} else if !bytes.Equal(got, pay) {
		c.Viol("C05", idx, fmt.Sprintf("temp/decrypt-mismatch/residue0=%v/%s", res == 0, zsig), fmt.Sprintf("payload len %d: got %d bytes", len(pay), len(got)), len(pay))
	}
	// b) sealed by the library itself, opened by the reference peer
	var lib []byte
	pan, pm, st = wk.Guard(func() { lib = ige.EncryptMessageWithTempKeys(pay, nnI, snI) })
	if pan {
		c.Viol("C05", idx, "temp/encrypt-panic/"+st+"/"+zsig, pm, len(pay))
	} else {
		d, pad, err := mtp.OpenTemp(newNonce, serverNonce, lib)
		switch {
		case err != nil && len(lib) == len(pay)+20+16 && res == 0:
			c.Viol("C05", idx, "temp/encrypt-padding-16/"+zsig, fmt.Sprintf("payload len %d: 16 padding bytes added where 0 are needed; a conformant peer (padding 0..15) cannot find the payload: %v", len(pay), err), len(pay))
		case err != nil:
			c.Viol("C05", idx, fmt.Sprintf("temp/encrypt-not-openable/residue0=%v/%s", res == 0, zsig), fmt.Sprintf("payload len %d: %v", len(pay), err), len(pay))
		case !bytes.Equal(d, pay):
			c.Viol("C05", idx, "temp/encrypt-wrong-payload/"+zsig, fmt.Sprintf("payload len %d", len(pay)), len(pay))
		default:
			c.Count(fmt.Sprintf("temp.pad.%02d", pad), 1)
		}
		// c) and by the library itself
		if !pan {
			var back []byte
			pan2, pm2, _ := wk.Guard(func() { back = ige.DecryptMessageWithTempKeys(lib, nnI, snI) })
			if pan2 {
				c.Viol("C05", idx, fmt.Sprintf("temp/self-roundtrip-panic/residue0=%v", res == 0), fmt.Sprintf("payload len %d: %s", len(pay), pm2), len(pay))
			} else if !bytes.Equal(back, pay) {
				c.Viol("C05", idx, fmt.Sprintf("temp/self-roundtrip-mismatch/residue0=%v", res == 0), fmt.Sprintf("payload len %d", len(pay)), len(pay))
			}
		}
	}
	c.Distinct("temp", len(pay), zsig)
	c.Count(fmt.Sprintf("temp.residue.%02d", res), 1)
	if idx%700 == 0 {
		c.Sample(map[string]interface{}{"kind": "temp", "payload_len": len(pay), "residue": res, "new_nonce": fmt.Sprintf("%x", newNonce), "server_nonce": fmt.Sprintf("%x", serverNonce)})
	}
}

var c05reusedNew, c05reusedSrv = new(big.Int), new(big.Int)
