package wl

import (
	crand "crypto/rand"
	"errors"
	"io"
	"math/big"
	"runtime"
	"strings"
	"sync"

	"github.com/xelaj/mtproto/zverif/ref/mtp"
)

// rngTee replaces crypto/rand.Reader in the worker: it serves scripted values for the next draw of a
// given size (to force corner values in the client) and records every chunk served with the /repo
// frames of the caller (provenance evidence for C19).
type rngDraw struct {
	Size     int
	Bytes    []byte
	Caller   string
	Scripted bool
}

type rngTee struct {
	mu     sync.Mutex
	inner  io.Reader
	script map[int][][]byte
	Draws  []rngDraw
	// failFrom >= 0: the k-th and later draws by /repo callers fail with an error (fault injection at the source)
	failFrom int
	Failed   int
	// maxChunk > 0: a read by a /repo caller returns at most that many bytes (n < len(p), no error), as an
	// io.Reader may; whoever needs more has to ask again
	maxChunk int
}

var (
	teeOnce sync.Once
	tee     *rngTee
)

func installTee() *rngTee {
	teeOnce.Do(func() {
		tee = &rngTee{inner: crand.Reader, script: map[int][][]byte{}, failFrom: -1}
		crand.Reader = tee
	})
	return tee
}

func (t *rngTee) Script(b []byte) {
	t.mu.Lock()
	t.script[len(b)] = append(t.script[len(b)], append([]byte{}, b...))
	t.mu.Unlock()
}

func (t *rngTee) Reset() {
	t.mu.Lock()
	t.script = map[int][][]byte{}
	t.Draws = nil
	t.failFrom = -1
	t.Failed = 0
	t.maxChunk = 0
	t.mu.Unlock()
}

// ShortReads makes every read by a /repo caller return at most n bytes.
func (t *rngTee) ShortReads(n int) {
	t.mu.Lock()
	t.maxChunk = n
	t.mu.Unlock()
}

// FailFrom makes the k-th (0-based) and later draws by /repo callers return an error.
func (t *rngTee) FailFrom(k int) {
	t.mu.Lock()
	t.failFrom = k
	t.mu.Unlock()
}

func (t *rngTee) Snapshot() []rngDraw {
	t.mu.Lock()
	defer t.mu.Unlock()
	return append([]rngDraw{}, t.Draws...)
}

func repoCaller() string {
	pc := make([]uintptr, 24)
	n := runtime.Callers(3, pc)
	fr := runtime.CallersFrames(pc[:n])
	var out []string
	for {
		f, more := fr.Next()
		if (strings.HasPrefix(f.Function, "github.com/xelaj/mtproto/") || strings.HasPrefix(f.Function, "github.com/xelaj/mtproto.")) && !strings.Contains(f.Function, "/zverif/") {
			out = append(out, strings.TrimPrefix(strings.TrimPrefix(f.Function, "github.com/xelaj/mtproto/"), "github.com/xelaj/mtproto."))
			if len(out) >= 3 {
				break
			}
		}
		if !more {
			break
		}
	}
	return strings.Join(out, "<")
}

func (t *rngTee) Read(p []byte) (int, error) {
	caller := repoCaller()
	t.mu.Lock()
	if caller != "" && t.failFrom >= 0 && len(t.Draws)+t.Failed >= t.failFrom {
		t.Failed++
		t.mu.Unlock()
		return 0, errOSRandom
	}
	if caller != "" && t.maxChunk > 0 && len(p) > t.maxChunk {
		p = p[:t.maxChunk]
	}
	q := t.script[len(p)]
	scripted := false
	if len(q) > 0 && caller != "" {
		copy(p, q[0])
		t.script[len(p)] = q[1:]
		scripted = true
	}
	t.mu.Unlock()
	if !scripted {
		if _, err := io.ReadFull(t.inner, p); err != nil {
			return 0, err
		}
	}
	if caller != "" {
		t.mu.Lock()
		t.Draws = append(t.Draws, rngDraw{Size: len(p), Bytes: append([]byte{}, p...), Caller: caller, Scripted: scripted})
		t.mu.Unlock()
	}
	return len(p), nil
}

// findExponent searches e (starting from a PRNG-chosen point, stepping by 1 with one modular
// multiplication per trial) such that base^e mod p, as 256 bytes, begins with exactly `zeros` zero bytes.
var errOSRandom = errors.New("injected: the OS random source is unavailable")

func findExponent(base *big.Int, start []byte, zeros int, maxTrials int) *big.Int {
	e := new(big.Int).SetBytes(start)
	v := new(big.Int).Exp(base, e, mtp.DHPrime)
	one := big.NewInt(1)
	for i := 0; i < maxTrials; i++ {
		b := mtp.LeftPad(v.Bytes(), 256)
		ok := b[zeros] != 0
		for z := 0; z < zeros; z++ {
			if b[z] != 0 {
				ok = false
			}
		}
		if ok {
			return e
		}
		e.Add(e, one)
		v.Mul(v, base).Mod(v, mtp.DHPrime)
	}
	return nil
}

func leadingZeros(b []byte) int {
	n := 0
	for n < len(b) && b[n] == 0 {
		n++
	}
	return n
}
