package wl

import (
	"fmt"
	"go/ast"
	"go/parser"
	"go/token"
	"math/rand"
	"reflect"
	"strconv"
	"strings"

	"github.com/xelaj/mtproto"
	"github.com/xelaj/mtproto/internal/mtproto/objects"
	"github.com/xelaj/mtproto/zverif/ref/rpcerr"
	"github.com/xelaj/mtproto/zverif/wk"
)

func init() { wk.Register("c17", c17) }

// catalogue reads the documented descriptions (name -> text) from /repo/errors.go of the working tree.
func c17catalogue() (map[string]string, error) {
	fs := token.NewFileSet()
	f, err := parser.ParseFile(fs, "/repo/errors.go", nil, 0)
	if err != nil {
		return nil, err
	}
	out := map[string]string{}
	ast.Inspect(f, func(n ast.Node) bool {
		vs, ok := n.(*ast.ValueSpec)
		if !ok || len(vs.Names) != 1 || vs.Names[0].Name != "errorMessages" || len(vs.Values) != 1 {
			return true
		}
		cl, ok := vs.Values[0].(*ast.CompositeLit)
		if !ok {
			return true
		}
		for _, e := range cl.Elts {
			kv, ok := e.(*ast.KeyValueExpr)
			if !ok {
				continue
			}
			k, ok1 := kv.Key.(*ast.BasicLit)
			v, ok2 := kv.Value.(*ast.BasicLit)
			if ok1 && ok2 {
				ks, _ := strconv.Unquote(k.Value)
				vsv, _ := strconv.Unquote(v.Value)
				out[ks] = vsv
			}
		}
		return false
	})
	if len(out) < 100 {
		return nil, fmt.Errorf("catalogue not found in /repo/errors.go (got %d entries)", len(out))
	}
	return out, nil
}

var c17Params = []string{"0", "1", "7", "86400", "2147483647", "9223372036854775807", "1000000000000000000000000000000", "-5", "", "abc", "1a", " 1", "%d", "007", "+3", "1 ", "٣", "1_0", "0x10", "%s%s%s%n", "-", "--1", "9223372036854775808"}

func c17(c *wk.Ctx) {
	cat, err := c17catalogue()
	if err != nil {
		c.Log.Emit(coreInconclusive(err.Error()))
		return
	}
	c.Count("catalogue.entries", int64(len(cat)))
	idx := 0
	var texts []string
	// 15 rows x parameters
	for _, row := range rpcerr.Rows {
		for _, p := range c17Params {
			texts = append(texts, row.Prefix+p+row.Suffix)
		}
		texts = append(texts, row.Prefix, row.Prefix+row.Suffix, strings.TrimSuffix(row.Prefix, "_"), row.Prefix+"5"+row.Suffix+"_", "X"+row.Prefix+"5"+row.Suffix)
	}
	// overlapping prefixes
	texts = append(texts, "INTERDC_5_CALL_RICH_ERROR", "INTERDC_5_CALL_ERROR", "INTERDC__CALL_ERROR", "INTERDC_5_CALL_RICH_ERROR_CALL_ERROR", "INTERDC_2_CALL_ERROR_CALL_RICH_ERROR",
		"INTERDC_CALL_ERROR", "INTERDC_x_CALL_ERROR", "FLOOD_WAIT_FLOOD_WAIT_3", "FILE_PART_3", "FILE_PART_3_MISSING", "FILE_PART__MISSING", "FILE_PART_MISSING")
	// every catalogued name
	for name := range cat {
		texts = append(texts, name)
	}
	texts = append(texts, "", "%", "%d", "%s", "%v%v", "SOME_UNKNOWN_ERROR", "some lower text", "UNKNOWN_%d_X", "100%", "\x00", "ÜNICODE_ERROR_5")
	for _, t := range texts {
		if c.Mine(idx) {
			c17one(c, idx, cat, int32(400+idx%5), t)
		}
		idx++
	}
	// the same texts again, in other orders and from several goroutines at once: the answer for a text does not depend
	// on what was asked before or at the same time (sequential answers, judged above, are the expectation)
	for k := 0; k < c.Pick(4, 40); k++ {
		if c.Mine(idx) {
			c.Begin(idx, fmt.Sprintf("concurrent %d", k))
			type ans struct {
				Code      int
				Msg, Desc string
				Info      interface{}
				Panic     string
			}
			ask := func(code int32, t string) (a ans) {
				defer func() {
					if p := recover(); p != nil {
						a.Panic = fmt.Sprint(p)
					}
				}()
				if r, ok := mtproto.RpcErrorToNative(&objects.RpcError{ErrorCode: code, ErrorMessage: t}).(*mtproto.ErrResponseCode); ok && r != nil {
					return ans{r.Code, r.Message, r.Description, r.AdditionalInfo, ""}
				}
				return ans{Msg: "<not structured>"}
			}
			want := make([]ans, len(texts))
			for i, t := range texts {
				want[i] = ask(int32(400+i%5), t)
			}
			res := concurrently(8, int64(idx), func(g int, r *rand.Rand) string {
				for _, i := range r.Perm(len(texts)) {
					if got := ask(int32(400+i%5), texts[i]); !reflect.DeepEqual(got, want[i]) {
						return fmt.Sprintf("answer-depends-on-history: %q gave %+v when asked alone in order and %+v when asked among other texts by 8 goroutines", texts[i], want[i], got)
					}
				}
				return ""
			})
			c.Count("evaluations", int64(8*len(texts)))
			for _, m := range res {
				if m != "" {
					c.Viol("C17", idx, "concurrent/"+strings.SplitN(m, ":", 2)[0], m, nil)
				}
			}
			c.Distinct("concurrent", k)
		}
		idx++
	}
	// random texts
	n := c.Pick(3000, 2000000)
	pieces := []string{"FLOOD_WAIT_", "PHONE_MIGRATE_", "INTERDC_", "_CALL_ERROR", "_CALL_RICH_ERROR", "FILE_PART_", "_MISSING", "X", "_", "0", "1", "9", "-", "%", "d", "v", " ", "A", "z", "%!", "(", "99999999999"}
	for k := 0; k < n; k++ {
		if c.Mine(idx) {
			r := c.Rand(idx)
			var t string
			if r.Intn(3) == 0 {
				row := rpcerr.Rows[r.Intn(len(rpcerr.Rows))]
				t = row.Prefix + randParam(r) + row.Suffix
			} else {
				for j := r.Intn(7); j > 0; j-- {
					t += pieces[r.Intn(len(pieces))]
				}
			}
			codes := []int32{0, 303, 400, 401, 420, 500, -503, 1<<31 - 1, -1 << 31}
			c17one(c, idx, cat, codes[r.Intn(len(codes))], t)
		}
		idx++
	}
}

func randParam(r *rand.Rand) string {
	switch r.Intn(5) {
	case 0:
		return strconv.Itoa(r.Intn(100000))
	case 1:
		return strconv.FormatInt(r.Int63(), 10)
	case 2:
		return strconv.Itoa(-r.Intn(1000))
	case 3:
		return c17Params[r.Intn(len(c17Params))]
	}
	b := make([]byte, r.Intn(6))
	for i := range b {
		b[i] = "0123456789abX%- "[r.Intn(16)]
	}
	return string(b)
}

func c17one(c *wk.Ctx, idx int, cat map[string]string, code int32, text string) {
	c.Begin(idx, fmt.Sprintf("%d %q", code, text))
	exp := rpcerr.Classify(text)
	var e error
	pan, pm, st := wk.Guard(func() { e = mtproto.RpcErrorToNative(&objects.RpcError{ErrorCode: code, ErrorMessage: text}) })
	zone := [...]string{"plain", "strict", "dontcare", "nonnumeric"}[exp.Zone]
	c.Count("zone."+zone, 1)
	c.Distinct(zone, text)
	if idx%400 == 0 {
		c.Sample(map[string]interface{}{"code": code, "text": text, "zone": zone})
	}
	if pan {
		c.Viol("C17", idx, "panic/"+zone+"/"+st, fmt.Sprintf("RpcErrorToNative(%d, %q) panicked: %s", code, text, wk.Short(pm, 200)), text)
		return
	}
	r, ok := e.(*mtproto.ErrResponseCode)
	if !ok || r == nil {
		c.Viol("C17", idx, "not-structured", fmt.Sprintf("%q gave %T", text, e), text)
		return
	}
	if r.Code != int(code) {
		c.Viol("C17", idx, "code/"+zone, fmt.Sprintf("%q: code %d, want %d", text, r.Code, code), text)
	}
	switch exp.Zone {
	case rpcerr.Plain:
		if r.Message != text || r.AdditionalInfo != nil {
			c.Viol("C17", idx, "plain/message", fmt.Sprintf("%q: message %q parameter %v", text, r.Message, r.AdditionalInfo), text)
		}
		if d, known := cat[text]; known && r.Description != d {
			c.Viol("C17", idx, "plain/description", fmt.Sprintf("%q: description %q, documented %q", text, r.Description, d), text)
		}
	case rpcerr.Strict:
		if r.Message != exp.Message {
			c.Viol("C17", idx, "strict/message/"+exp.Message, fmt.Sprintf("%q: message %q, want %q", text, r.Message, exp.Message), text)
			return
		}
		if n, ok := r.AdditionalInfo.(int); !ok || n != exp.Param {
			c.Viol("C17", idx, "strict/parameter/"+exp.Message, fmt.Sprintf("%q: parameter %v (%T), want %d", text, r.AdditionalInfo, r.AdditionalInfo, exp.Param), text)
		}
		if d, known := cat[exp.Message]; known {
			want := fmt.Sprintf(d, exp.Param)
			if r.Description != want {
				c.Viol("C17", idx, "strict/description/"+exp.Message, fmt.Sprintf("%q: description %q, want %q", text, r.Description, want), text)
			}
		}
	case rpcerr.NonNumeric:
		if r.Message != text || r.AdditionalInfo != nil {
			c.Viol("C17", idx, "nonnumeric/message", fmt.Sprintf("%q has no numeric parameter to replace: message %q parameter %v (the server's text is lost)", text, r.Message, r.AdditionalInfo), text)
		}
	case rpcerr.DontCare:
		okMsg := r.Message == text
		for _, x := range exp.XForms {
			if r.Message == x {
				okMsg = true
			}
		}
		if !okMsg {
			c.Viol("C17", idx, "dontcare/message", fmt.Sprintf("%q: message %q is neither the raw text nor an X-form", text, r.Message), text)
		}
	}
}
