package wl

import (
	"bytes"
	"fmt"
	"math/rand"
	"os"
	"os/exec"
	"path/filepath"
	"strings"
	"syscall"
	"time"

	"github.com/xelaj/errs"

	"github.com/xelaj/mtproto/internal/session"
	"github.com/xelaj/mtproto/zverif/wk"
)

func init() { wk.Register("c12", c12) }

var c12Hosts = []string{"149.154.167.50:443", "", "localhost:1", "хост.рф:443", "a\"b\\c:1", "<script>&amp;</script>", "tab\there", "nl\nhere", "{\"key\":\"x\"}", " sep", "emoji😀:443", "a,b", "[::1]:443", "\x00nul", "ü", "bell\a vt\v del\x7f esc\x1b:1", "\u2028line\u2029sep"}

func init() { wk.Register("c12child", c12child) }

// c12child stores one session after the other on the given path until it is killed (the parent kills it with
// SIGKILL at a PRNG-chosen moment: a real crash during writing, whatever way the library writes).
func c12child(c *wk.Ctx) {
	path := c.Args["path"]
	r := rand.New(rand.NewSource(c.Seed))
	l := session.NewFromFile(path)
	for i := 0; i < 1000000; i++ {
		s := c12crashSession(r, i)
		if err := l.Store(s); err != nil {
			fmt.Fprintln(os.Stderr, "child store:", err)
			os.Exit(5)
		}
	}
}

// c12crashSession: the i-th session of the child's sequence (large keys make the write long enough to be hit).
func c12crashSession(r *rand.Rand, i int) *session.Session {
	return &session.Session{Key: rbytes(r, 256+(i%7)*4096), Hash: rbytes(r, 8), Salt: int64(r.Uint64()), Hostname: fmt.Sprintf("host%d:443", i)}
}

// c12crash: kill a process in the middle of its stores, then look at what is left behind.
func c12crash(c *wk.Ctx, idx int, r *rand.Rand, base string) {
	exe, err := os.Executable()
	if err != nil {
		c.Log.Emit(coreInconclusive("c12 crash: " + err.Error()))
		return
	}
	dir := filepath.Join(base, fmt.Sprintf("crash%d", idx))
	os.MkdirAll(dir, 0o755)
	defer os.RemoveAll(dir)
	path := filepath.Join(dir, "session.json")
	seed := int64(r.Uint32())
	cmd := exec.Command(exe, "-w", "c12child", "-seed", fmt.Sprint(seed), "-log", filepath.Join(dir, "child.log"), "-args", "path="+path)
	if err := cmd.Start(); err != nil {
		c.Log.Emit(coreInconclusive("c12 crash: " + err.Error()))
		return
	}
	time.Sleep(time.Duration(20+r.Intn(60)) * time.Millisecond) // process start + some stores
	cmd.Process.Signal(syscall.SIGKILL)
	cmd.Wait()
	c.Count("crash.processes_killed_while_storing", 1)
	// what the next start of the application sees
	var got *session.Session
	var lerr error
	pan, pm, st := wk.Guard(func() { got, lerr = session.NewFromFile(path).Load() })
	switch {
	case pan:
		c.Viol("C12", idx, "kill/panic/"+st, pm, nil)
		return
	case lerr == nil:
		// must be one of the sessions the child stored
		rr := rand.New(rand.NewSource(seed))
		found := false
		for i := 0; i < 20000 && !found; i++ {
			found = sessEq(got, c12crashSession(rr, i))
		}
		if !found {
			c.Viol("C12", idx, "kill/different-session", "after the writer was killed, Load returns a session that was never stored: "+sessStr(got), nil)
			return
		}
		c.Count("crash.left_a_complete_session", 1)
	default:
		c.Count("crash.left_an_error", 1)
	}
	// and the path is still a path "whose directory exists": the next store wins, for an old loader as for a fresh one
	s2 := c12session(r)
	var serr error
	pan, pm, st = wk.Guard(func() { serr = session.NewFromFile(path).Store(s2) })
	if pan {
		c.Viol("C12", idx, "kill/panic/"+st, pm, nil)
		return
	}
	if serr != nil {
		ents, _ := os.ReadDir(dir)
		var names []string
		for _, e := range ents {
			names = append(names, e.Name())
		}
		c.Viol("C12", idx, "kill/store-refused-after-crash", fmt.Sprintf("after a writer was killed in the middle of its stores, Store on the same path fails: %v (directory now holds %v)", serr, names), nil)
		return
	}
	pan, pm, st = wk.Guard(func() { got, lerr = session.NewFromFile(path).Load() })
	if pan || lerr != nil || !sessEq(got, s2) {
		c.Viol("C12", idx, "kill/store-after-crash-not-read-back", fmt.Sprint(pm, lerr, st), nil)
	}
	c.Distinct("kill", idx)
}

func c12session(r *rand.Rand) *session.Session {
	s := &session.Session{}
	klen := []int{0, 1, 8, 255, 256, 257, 512}[r.Intn(7)]
	if r.Intn(3) == 0 {
		klen = r.Intn(513)
	}
	s.Key = rbytes(r, klen)
	hlen := []int{0, 7, 8, 9, 20}[r.Intn(5)]
	s.Hash = rbytes(r, hlen)
	s.Salt = pick64(r)
	s.Hostname = c12Hosts[r.Intn(len(c12Hosts))]
	if r.Intn(4) == 0 {
		s.Hostname = randWord(r) + ":" + fmt.Sprint(r.Intn(65536))
	}
	return s
}

func sessEq(a, b *session.Session) bool {
	return a != nil && b != nil && bytes.Equal(a.Key, b.Key) && bytes.Equal(a.Hash, b.Hash) && a.Salt == b.Salt && a.Hostname == b.Hostname
}

func sessStr(s *session.Session) string {
	if s == nil {
		return "<nil>"
	}
	return fmt.Sprintf("{key:%d bytes %x.. hash:%x salt:%d host:%q}", len(s.Key), headOf(s.Key, 4), s.Hash, s.Salt, s.Hostname)
}

func headOf(b []byte, n int) []byte {
	if len(b) < n {
		return b
	}
	return b[:n]
}

func c12(c *wk.Ctx) {
	base, err := os.MkdirTemp("", "vc12-")
	if err != nil {
		c.Log.Emit(coreInconclusive(err.Error()))
		return
	}
	defer os.RemoveAll(base)
	cwd := filepath.Join(base, "cwd")
	os.MkdirAll(filepath.Join(cwd, "sub"), 0o755)
	os.Chdir(cwd)
	idx := 0
	// ---- A. single sessions, three path kinds, same and fresh loader
	n := c.Pick(1500, 40000)
	for k := 0; k < n; k++ {
		if c.Mine(idx) {
			r := c.Rand(idx)
			s := c12session(r)
			kind := []string{"absolute", "relative", "bare", "dot-relative", "dotdot", "parent-relative", "odd-name", "hidden", "symlinked-dir", "long-name", "symlinked-file", "other-filesystem"}[k%12]
			var path string
			switch kind {
			case "dotdot":
				path = filepath.Join("sub", "..") + "/sub/../" + fmt.Sprintf("u%d.json", idx)
			case "parent-relative":
				path = "../cwd/" + fmt.Sprintf("p%d.json", idx)
			case "odd-name":
				path = filepath.Join("sub", fmt.Sprintf("se ss\u00efon %d 'q\" [x].json", idx))
			case "hidden":
				path = fmt.Sprintf(".h%d", idx)
			case "symlinked-dir":
				os.Symlink(filepath.Join(cwd, "sub"), filepath.Join(base, "lnk"))
				path = filepath.Join(base, "lnk", fmt.Sprintf("l%d.json", idx))
			case "symlinked-file":
				// the path's last component is a link to a regular file elsewhere (dotfile managers, mounted secrets)
				target := filepath.Join(cwd, "sub", fmt.Sprintf("target%d.json", idx))
				path = filepath.Join(base, fmt.Sprintf("link%d.json", idx))
				os.Symlink(target, path) // dangles until the first store
			case "other-filesystem":
				// not on the volume of the temporary directory (when the machine has such a place)
				path = filepath.Join(base, fmt.Sprintf("o%d.json", idx))
				if o := otherFilesystem(); o != "" {
					path = filepath.Join(o, fmt.Sprintf("vc12-%d-%d.json", os.Getpid(), idx))
					c.Count("paths.on_another_filesystem", 1)
				}
			case "long-name":
				path = filepath.Join(base, strings.Repeat("n", 200)+fmt.Sprintf("%d.json", idx))
			case "absolute":
				path = filepath.Join(base, fmt.Sprintf("s%d.json", idx))
			case "relative":
				path = filepath.Join("sub", fmt.Sprintf("s%d.json", idx))
			case "dot-relative":
				path = "./" + fmt.Sprintf("d%d.json", idx)
			default:
				path = fmt.Sprintf("b%d.json", idx)
			}
			c.Begin(idx, fmt.Sprintf("single %s %s", kind, sessStr(s)))
			c12single(c, idx, path, kind, s)
			os.Remove(path)
			if k < 3 {
				c.Sample(map[string]interface{}{"kind": "single", "path_kind": kind, "session": sessStr(s)})
			}
		}
		idx++
	}
	// ---- A1. a server address that is not valid UTF-8 ("any byte values"): the file format is JSON text, which has no
	// way to carry such bytes — recorded as a known finding under this very signature, see known_findings.json
	if c.Mine(idx) {
		c.Begin(idx, "hostname not utf-8")
		r := c.Rand(idx)
		for _, host := range []string{"\xff\xfe not utf8", "srv\xc3(:443", "\x80"} {
			s := c12session(r)
			s.Hostname = host
			path := filepath.Join(base, fmt.Sprintf("nu%d.json", idx))
			var got *session.Session
			var err error
			pan, pm, st := wk.Guard(func() {
				l := session.NewFromFile(path)
				if err = l.Store(s); err == nil {
					got, err = l.Load()
				}
			})
			os.Remove(path)
			c.Count("evaluations", 1)
			switch {
			case pan:
				c.Viol("C12", idx, "single/panic/"+st, pm, host)
			case err != nil:
				c.Count("hostname_not_utf8.refused", 1) // a refusal stores nothing, so nothing is read back altered
			case got.Hostname != host:
				c.Viol("C12", idx, "single/hostname-not-utf8-altered", fmt.Sprintf("stored server address %q, read back %q (key, hash and salt intact: %v)", host, got.Hostname, bytes.Equal(got.Key, s.Key) && got.Salt == s.Salt), host)
			}
			c.Distinct("host-not-utf8", host)
		}
	}
	idx++
	// ---- A2. paths whose directory does not exist: Store must fail cleanly (the property only promises paths whose directory exists)
	for k := 0; k < 20; k++ {
		if c.Mine(idx) {
			r := c.Rand(idx)
			p := filepath.Join(base, fmt.Sprintf("missing-dir-%d", k), "sub", "s.json")
			c.Begin(idx, "no-dir "+p)
			var err error
			pan, pm, st := wk.Guard(func() { err = session.NewFromFile(p).Store(c12session(r)) })
			if pan {
				c.Viol("C12", idx, "nodir/panic/"+st, pm, p)
			} else if err == nil {
				if _, serr := os.Stat(p); serr != nil {
					c.Viol("C12", idx, "nodir/store-reported-success-without-file", "Store into a non-existent directory returned nil but no file exists", p)
				}
			}
			// the directory appears later (the application creates it after the first failure): from then on the path
			// is one "whose directory exists", for the loader that failed before as for any other
			if k%2 == 0 {
				old := session.NewFromFile(p)
				wk.Guard(func() { old.Store(c12session(r)) })
				wk.Guard(func() { old.Load() })
				os.MkdirAll(filepath.Dir(p), 0o755)
				s2 := c12session(r)
				var e2 error
				var g2 *session.Session
				pan2, pm2, st2 := wk.Guard(func() {
					if e2 = old.Store(s2); e2 == nil {
						g2, e2 = old.Load()
					}
				})
				c.Count("nodir.directory_created_later", 1)
				if pan2 {
					c.Viol("C12", idx, "nodir/panic/"+st2, pm2, p)
				} else if e2 != nil || !sessEq(g2, s2) {
					c.Viol("C12", idx, "nodir/loader-unusable-after-directory-appeared", fmt.Sprintf("a loader whose first store failed for want of the directory still fails after the directory was created: err=%v", e2), p)
				}
				os.RemoveAll(filepath.Join(base, fmt.Sprintf("missing-dir-%d", k)))
			}
			var got *session.Session
			pan, pm, st = wk.Guard(func() { got, err = session.NewFromFile(p).Load() })
			if pan {
				c.Viol("C12", idx, "nodir/panic/"+st, pm, p)
			} else if err == nil && got != nil {
				if _, serr := os.Stat(p); serr != nil {
					c.Viol("C12", idx, "nodir/load-invented-session", "Load of a path in a non-existent directory returned a session", p)
				}
			}
			c.Distinct("nodir", k)
		}
		idx++
	}
	// ---- B. histories on one path through 1..3 loaders, native and coarse-mtime
	n = c.Pick(300, 6000)
	for k := 0; k < n; k++ {
		for _, coarse := range []bool{false, true} {
			if c.Mine(idx) {
				r := c.Rand(idx)
				c.Begin(idx, fmt.Sprintf("history %d coarse=%v", k, coarse))
				c12history(c, idx, r, filepath.Join(base, fmt.Sprintf("h%d.json", idx)), coarse)
			}
			idx++
		}
	}
	// ---- C0. real crashes: a child process is killed (SIGKILL) while it stores session after session
	for k := 0; k < c.Pick(12, 200); k++ {
		if c.Mine(idx) {
			c.Begin(idx, fmt.Sprintf("kill writer %d", k))
			c12crash(c, idx, c.Rand(idx), base)
		}
		idx++
	}
	// ---- C. crash points: every strict prefix of a stored file
	n = c.Pick(20, 200)
	for k := 0; k < n; k++ {
		if c.Mine(idx) {
			r := c.Rand(idx)
			s := c12session(r)
			p := filepath.Join(base, fmt.Sprintf("c%d.json", idx))
			c.Begin(idx, "crash "+sessStr(s))
			if err := session.NewFromFile(p).Store(s); err != nil {
				c.Viol("C12", idx, "crash/store-failed", err.Error(), nil)
			} else {
				full, _ := os.ReadFile(p)
				for cut := 0; cut < len(full); cut++ {
					q := p + ".torn"
					os.WriteFile(q, full[:cut], 0o600)
					var got *session.Session
					var err error
					pan, pm, st := wk.Guard(func() { got, err = session.NewFromFile(q).Load() })
					c.Count("evaluations", 1)
					c.Count("crash.prefixes", 1)
					if pan {
						c.Viol("C12", idx, "crash/panic/"+st, fmt.Sprintf("prefix %d of %d: %s", cut, len(full), pm), string(full[:cut]))
					} else if err == nil {
						c.Viol("C12", idx, "crash/torn-file-accepted", fmt.Sprintf("prefix %d of %d bytes loaded as %s", cut, len(full), sessStr(got)), string(full[:cut]))
					} else if errs.IsNotFound(err) {
						// "missing" and "cut short" are different answers: the client re-keys and overwrites on "not found"
						c.Viol("C12", idx, "crash/torn-file-reported-as-missing", fmt.Sprintf("a file cut to %d of %d bytes exists, but Load reports it as not found: %v", cut, len(full), err), string(full[:cut]))
					}
					c.Distinct("crash", k, cut)
					// the same crash seen by a loader that has successfully loaded this path before
					if cut%7 == 3 {
						warm := session.NewFromFile(q)
						os.WriteFile(q, full, 0o600)
						if _, werr := warm.Load(); werr == nil {
							os.WriteFile(q, full[:cut], 0o600)
							var g2 *session.Session
							var e2 error
							pan2, pm2, st2 := wk.Guard(func() { g2, e2 = warm.Load() })
							c.Count("crash.prefixes_warm_loader", 1)
							if pan2 {
								c.Viol("C12", idx, "crash/panic/"+st2, pm2, nil)
							} else if e2 == nil {
								c.Viol("C12", idx, "crash/torn-file-accepted-by-warm-loader", fmt.Sprintf("a loader that had loaded the path before returned %s for a file cut to %d of %d bytes", sessStr(g2), cut, len(full)), string(full[:cut]))
							}
						}
					}
				}
				os.Remove(p + ".torn")
			}
			os.Remove(p)
		}
		idx++
	}
	os.Chdir("/")
}

func c12single(c *wk.Ctx, idx int, path, kind string, s *session.Session) {
	l := session.NewFromFile(path)
	// missing file → not found
	var got *session.Session
	var err error
	pan, pm, st := wk.Guard(func() { got, err = l.Load() })
	if pan {
		c.Viol("C12", idx, "single/panic/"+st, pm, nil)
		return
	}
	if err == nil || !errs.IsNotFound(err) {
		c.Viol("C12", idx, "single/missing-not-notfound", fmt.Sprintf("load of a missing file (%s path): session=%v err=%v", kind, got != nil, err), path)
	}
	pan, pm, st = wk.Guard(func() { err = l.Store(s) })
	if pan {
		c.Viol("C12", idx, "single/panic/"+st, pm, nil)
		return
	}
	if err != nil {
		c.Viol("C12", idx, "single/store-refused/"+kind, fmt.Sprintf("store to %q (directory exists): %v", path, err), path)
		return
	}
	for who, ld := range map[string]session.SessionLoader{"same": l, "fresh": session.NewFromFile(path)} {
		pan, pm, st = wk.Guard(func() { got, err = ld.Load() })
		if pan {
			c.Viol("C12", idx, "single/panic/"+st, pm, nil)
			return
		}
		if err != nil {
			c.Viol("C12", idx, "single/load-error/"+who, fmt.Sprintf("%s: %v", sessStr(s), err), sessStr(s))
		} else if !sessEq(got, s) {
			field := "key"
			switch {
			case got.Salt != s.Salt:
				field = "salt"
			case got.Hostname != s.Hostname:
				field = "hostname"
			case !bytes.Equal(got.Hash, s.Hash):
				field = "hash"
			}
			c.Viol("C12", idx, "single/mismatch/"+field+"/"+who, fmt.Sprintf("stored %s, loaded %s", sessStr(s), sessStr(got)), sessStr(s))
		}
	}
	c.Distinct("single", kind, len(s.Key), len(s.Hash), s.Salt, s.Hostname)
}

func mustGetwd() string {
	d, err := os.Getwd()
	if err != nil {
		return "/"
	}
	return d
}

func c12history(c *wk.Ctx, idx int, r *rand.Rand, path string, coarse bool) {
	defer os.Remove(path)
	nl := 1 + r.Intn(3)
	loaders := make([]session.SessionLoader, nl)
	for i := range loaders {
		// the loaders may spell the one path differently (absolute / relative to the working directory / with "..")
		sp := path
		if rel, err := filepath.Rel(mustGetwd(), path); err == nil && i > 0 {
			switch (idx + i) % 3 {
			case 1:
				sp = rel
			case 2:
				sp = filepath.Dir(rel) + "/./../" + filepath.Base(filepath.Dir(path)) + "/" + filepath.Base(rel)
			}
		}
		loaders[i] = session.NewFromFile(sp)
	}
	var model *session.Session
	pool := []*session.Session{c12session(r), c12session(r), c12session(r)}
	nops := 1 + r.Intn(8)
	if r.Intn(3) == 0 {
		nops = 6 + r.Intn(8)
	}
	hist := ""
	for op := 0; op < nops; op++ {
		li := r.Intn(nl)
		if r.Intn(2) == 0 {
			s := c12session(r)
			if r.Intn(2) == 0 {
				pi := r.Intn(len(pool))
				s = sessClone(pool[pi]) // the same value stored again (possibly by another loader in between)
				hist += fmt.Sprintf("S%d=p%d ", li, pi)
			} else {
				hist += fmt.Sprintf("S%d ", li)
			}
			var err error
			pan, pm, st := wk.Guard(func() { err = loaders[li].Store(s) })
			if pan || err != nil {
				c.Viol("C12", idx, "history/store-failed", fmt.Sprint(pm, err, st), hist)
				return
			}
			model = sessClone(s)
			if r.Intn(3) == 0 { // the caller goes on using (here: wiping) the object it handed to Store
				sessScribble(s)
				hist += "w "
			}
			if coarse {
				// what a filesystem with one-second timestamps (FAT, HFS+, ext3, NFSv3) records
				if fi, err := os.Stat(path); err == nil {
					t := fi.ModTime().Truncate(time.Second)
					os.Chtimes(path, t, t)
				}
			}
		} else {
			hist += fmt.Sprintf("L%d ", li)
			var got *session.Session
			var err error
			pan, pm, st := wk.Guard(func() { got, err = loaders[li].Load() })
			if pan {
				c.Viol("C12", idx, "history/panic/"+st, pm, hist)
				return
			}
			if model == nil {
				if err == nil || !errs.IsNotFound(err) {
					c.Viol("C12", idx, "history/missing-not-notfound", fmt.Sprintf("history %s: err=%v", hist, err), hist)
					return
				}
				continue
			}
			if err != nil {
				c.Viol("C12", idx, "history/load-error", fmt.Sprintf("history %s: %v", hist, err), hist)
				return
			}
			if !sessEq(got, model) {
				c.Viol("C12", idx, fmt.Sprintf("history/stale-load/coarse-mtime=%v/loaders>1=%v", coarse, nl > 1), fmt.Sprintf("history %s (S=store L=load, digit=loader): last store was %s, load returned %s", hist, sessStr(model), sessStr(got)), hist)
				return
			}
			if r.Intn(2) == 0 { // the caller changes its working copy (wipes the key, moves on to another salt / address); the file is untouched
				sessScribble(got)
				hist += "w "
			}
		}
	}
	c.Distinct("history", hist, coarse)
	if idx%211 == 0 {
		c.Sample(map[string]interface{}{"kind": "history", "ops": hist, "coarse_mtime": coarse, "loaders": nl})
	}
}

func sessClone(s *session.Session) *session.Session {
	cp := *s
	cp.Key = append([]byte(nil), s.Key...)
	cp.Hash = append([]byte(nil), s.Hash...)
	return &cp
}

// sessScribble: what a caller may do to a session object that belongs to it.
func sessScribble(s *session.Session) {
	for i := range s.Key {
		s.Key[i] = 0
	}
	for i := range s.Hash {
		s.Hash[i] ^= 0xff
	}
	s.Salt = ^s.Salt
	s.Hostname = "wiped:" + s.Hostname
}
