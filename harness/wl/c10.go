package wl

import (
	"encoding/binary"
	"fmt"
	"math/rand"
	"strings"
	"sync"
	"sync/atomic"
	"time"

	"github.com/xelaj/mtproto/internal/utils"
	"github.com/xelaj/mtproto/zverif/ref/mtp"
	"github.com/xelaj/mtproto/zverif/refserver"
	"github.com/xelaj/mtproto/zverif/wk"
)

func init() { wk.Register("c10", c10) }

// checkOutgoing is the C10 monitor over the server's log of decrypted client messages, in arrival order.
func checkOutgoing(c *wk.Ctx, idx int, e *rpcEnv, tag string, clockNanos func() (lo, hi int64)) {
	e.mu.Lock()
	recv := append([]recvRec{}, e.recv...)
	sent := map[int64]bool{}
	for k := range e.sentCont {
		sent[k] = true
	}
	acked := map[int64]bool{}
	for k := range e.acked {
		acked[k] = true
	}
	e.mu.Unlock()
	type key struct {
		conn int
		sess int64
	}
	last := map[key]recvRec{}
	have := map[key]bool{}
	inversions, equal := 0, 0
	for i, r := range recv {
		c.Count("c10.messages", 1)
		k := key{r.Conn, r.Sess}
		if strings.HasPrefix(tag, "reconnect") {
			k.conn = 0 // a session outlives its connections: the order is that of the session
		}
		if r.MsgID%4 != 0 {
			c.Viol("C10", idx, "msg_id-not-multiple-of-4/"+tag, fmt.Sprintf("message %d: msg_id %d", i, r.MsgID), nil)
		}
		if lo, hi := clockNanos(); true {
			sec := r.MsgID >> 32
			if sec < lo/1e9-300 || sec > hi/1e9+300 {
				c.Viol("C10", idx, "msg_id-not-from-time/"+tag, fmt.Sprintf("msg_id %d has seconds part %d, clock is %d..%d", r.MsgID, sec, lo/1e9, hi/1e9), nil)
			}
		}
		content := r.Acks == nil
		if content != (r.SeqNo%2 == 1) {
			c.Viol("C10", idx, fmt.Sprintf("seq_no-parity/content=%v/%s", content, tag), fmt.Sprintf("message %d ctor %#08x: seq_no %d", i, r.Ctor, r.SeqNo), nil)
		}
		if have[k] {
			p := last[k]
			if r.MsgID < p.MsgID {
				inversions++
			} else if r.MsgID == p.MsgID {
				equal++
			}
			if r.SeqNo < p.SeqNo {
				c.Viol("C10", idx, "seq_no-decreased/"+tag, fmt.Sprintf("message %d: seq_no %d after %d", i, r.SeqNo, p.SeqNo), nil)
			}
		}
		last[k] = r
		have[k] = true
	}
	if inversions > 0 {
		c.Viol("C10", idx, "msg_id-order-inverted/"+tag, fmt.Sprintf("%d of %d messages arrived with a msg_id lower than the message written before them (a conformant server answers bad_msg_notification 16)", inversions, len(recv)), nil)
	}
	if equal > 0 {
		c.Viol("C10", idx, "msg_id-repeated/"+tag, fmt.Sprintf("%d of %d messages repeat the msg_id of the message written before them", equal, len(recv)), nil)
	}
	// ack coverage, at quiescence: wait (bounded) for the logical condition "every content-related message named";
	// only what is still missing after the client has had ample time AND is idle counts
	for w := 0; w < 1000; w++ {
		e.mu.Lock()
		all := true
		for id := range e.sentCont {
			if !e.acked[id] {
				all = false
				break
			}
		}
		e.mu.Unlock()
		if all {
			break
		}
		time.Sleep(10 * time.Millisecond)
	}
	e.mu.Lock()
	for k := range e.acked {
		acked[k] = true
	}
	e.mu.Unlock()
	missing := 0
	for id := range sent {
		c.Count("c10.content_messages_sent", 1)
		if !acked[id] {
			missing++
		}
	}
	if missing > 0 {
		c.Viol("C10", idx, "unacknowledged/"+tag, fmt.Sprintf("%d of %d content-related server messages were never named in a msgs_ack", missing, len(sent)), nil)
	}
}

func wallClock() (int64, int64) { n := time.Now().UnixNano(); return n - 120e9, n + 120e9 }

func c10(c *wk.Ctx) {
	idx := 0
	// (A) the C09 scenario family, C10 oracle
	for k := 0; k < c.Pick(40, 1000); k++ {
		if c.Mine(idx) {
			r := c.Rand(idx)
			sc := randScenario(r, !c.Quick())
			c.Begin(idx, "rpc "+toJSON(sc))
			if e, err := newRPCEnv(c, idx, r, envOpts{}); err != nil {
				c.Log.Emit(coreInconclusive("c10 setup: " + err.Error()))
			} else {
				res := runRPCScenario(e, r, sc)
				if res.Unfinished == 0 {
					e.quiesce(2 * time.Second)
					checkOutgoing(c, idx, e, "rpc", wallClock)
					c.Distinct("rpc", interleavingSig(res.HookSeq))
				} else {
					c.Log.Emit(coreInconclusive("c10: rpc scenario did not finish"))
				}
				e.close()
			}
		}
		idx++
	}
	// (B) burst: N goroutines, held right after they obtained their msg_id, released in reverse order
	for k := 0; k < c.Pick(24, 600); k++ {
		if c.Mine(idx) {
			r := c.Rand(idx)
			n := 2 + r.Intn(c.Pick(8, 31))
			if k == 0 {
				n = 2 // the seed history: A and B held at send.id, B released first
			}
			c.Begin(idx, fmt.Sprintf("burst n=%d", n))
			c10burst(c, idx, r, n)
		}
		idx++
	}
	// (C) clock: frozen for K calls / stepping backwards (H4)
	for k := 0; k < c.Pick(12, 160); k++ {
		if c.Mine(idx) {
			r := c.Rand(idx)
			mode := []string{"frozen", "backwards", "coarse", "backwards-far"}[k%4]
			c.Begin(idx, "clock "+mode)
			c10clock(c, idx, r, mode)
		}
		idx++
	}
	// (D) server histories for acknowledgement coverage
	for k := 0; k < c.Pick(12, 300); k++ {
		if c.Mine(idx) {
			r := c.Rand(idx)
			c.Begin(idx, fmt.Sprintf("ackhist %d", k))
			c10acks(c, idx, r)
		}
		idx++
	}
	// (E) the session outlives its connections: calls, the server closes, the client reconnects, calls again
	for k := 0; k < c.Pick(6, 120); k++ {
		if c.Mine(idx) {
			c.Begin(idx, fmt.Sprintf("reconnect %d", k))
			c10reconnect(c, idx, c.Rand(idx))
		}
		idx++
	}
	// (F) the client's own traffic: after a minute without requests the keep-alive ping goes out by itself; it is a
	// message of the stream like any other (one case: it takes 62 s of real time, in a shard of its own)
	for k := 0; k < c.Pick(1, 2); k++ {
		if c.Mine(idx) {
			c.Begin(idx, fmt.Sprintf("keep-alive %d", k))
			c10keepalive(c, idx, c.Rand(idx))
		}
		idx++
	}
	theHooks.flushCounts(c)
}

func c10keepalive(c *wk.Ctx, idx int, r *rand.Rand) {
	var pings int32
	e, err := newRPCEnv(c, idx, r, envOpts{
		Any: func(e *rpcEnv, cn *refserver.Conn, in *mtp.Inner) bool {
			if len(in.Body) >= 12 && binary.LittleEndian.Uint32(in.Body) == 0x7abe77ec { // ping#7abe77ec ping_id:long
				atomic.AddInt32(&pings, 1)
				e.sendService(cn, refserver.Pong(in.MsgID, int64(binary.LittleEndian.Uint64(in.Body[4:12]))), true, "pong")
				return false // recorded like every other message of the stream
			}
			return false
		},
		Handler: func(e *rpcEnv, p pendingReq, in *mtp.Inner) bool {
			e.sendGroup(p.conn, [][]byte{e.resultBody(p, wrapOpts{})}, []uint64{p.uid}, false)
			return true
		}})
	if err != nil {
		c.Log.Emit(coreInconclusive("c10 setup: " + err.Error()))
		return
	}
	defer e.close()
	used := map[uint64]bool{}
	call := func() bool {
		return withTimeout(30*time.Second, func() { e.doCall(0, uidFor(r, "object", used), "object", false) })
	}
	if !call() {
		c.Log.Emit(coreInconclusive("c10 keep-alive: first call did not return"))
		return
	}
	for w := 0; w < 640 && atomic.LoadInt32(&pings) == 0; w++ { // until the ping is seen (the ticker fires at 60 s)
		time.Sleep(100 * time.Millisecond)
	}
	if atomic.LoadInt32(&pings) == 0 {
		c.Log.Emit(coreInconclusive("c10 keep-alive: no ping seen within 64 s"))
		return
	}
	if !call() {
		c.Log.Emit(coreInconclusive("c10 keep-alive: call after the ping did not return (C16 judges that)"))
		return
	}
	e.quiesce(2 * time.Second)
	checkOutgoing(c, idx, e, "keep-alive", wallClock)
	c.Count("c10.keepalive_pings_observed", int64(atomic.LoadInt32(&pings)))
	c.Distinct("keepalive", 1)
}

func c10reconnect(c *wk.Ctx, idx int, r *rand.Rand) {
	// the clock across the connections of one session: as it is / frozen / stepped back while reconnecting / coarse
	mode := []string{"native", "frozen", "stepped-back", "coarse"}[idx%4]
	base := time.Now().UnixNano()
	var reads, back int64
	if mode != "native" {
		utils.SetVerifClock(func() int64 {
			k := atomic.AddInt64(&reads, 1)
			switch mode {
			case "frozen":
				return base + (k/8)*1e6
			case "stepped-back":
				return base + k*1e6 - atomic.LoadInt64(&back)
			}
			return (time.Now().UnixNano() / 15600000) * 15600000
		})
		defer utils.SetVerifClock(nil)
	}
	e, err := newRPCEnv(c, idx, r, envOpts{Handler: func(e *rpcEnv, p pendingReq, in *mtp.Inner) bool {
		e.sendGroup(p.conn, [][]byte{e.resultBody(p, wrapOpts{})}, []uint64{p.uid}, false)
		return true
	}})
	if err != nil {
		c.Log.Emit(coreInconclusive("c10 setup: " + err.Error()))
		return
	}
	defer e.close()
	var reconnects int32
	theHooks.start(rand.New(rand.NewSource(r.Int63())), map[string]int{"send.id": 300, "ack.before": 300}, func(name string, arg int64) {
		if name == "reconnect.done" {
			atomic.AddInt32(&reconnects, 1)
		}
	})
	defer theHooks.stop()
	used := map[uint64]bool{}
	calls := func(n int) bool {
		var wg sync.WaitGroup
		okAll := int32(1)
		for g := 0; g < n; g++ {
			kind := rpcKinds[r.Intn(len(rpcKinds))]
			uid := uidFor(r, kind, used)
			wg.Add(1)
			go func(g int) {
				defer wg.Done()
				if rec := e.doCall(g, uid, kind, false); !rec.OK {
					atomic.StoreInt32(&okAll, 0)
				}
			}(g)
		}
		return withTimeout(30*time.Second, wg.Wait) && atomic.LoadInt32(&okAll) == 1
	}
	rounds := 1 + r.Intn(3)
	for round := 0; round <= rounds; round++ {
		if !calls(1 + r.Intn(4)) {
			c.Log.Emit(coreInconclusive(fmt.Sprintf("c10 reconnect: calls of round %d did not all complete (C16 judges that)", round)))
			return
		}
		if round == rounds {
			break
		}
		// the close is orderly: the server waits until what it has sent is acknowledged (an acknowledgement cut off by
		// the close would be the server's doing — it would deliver the message again — not a broken rule)
		for w := 0; w < 1000; w++ {
			e.mu.Lock()
			all := true
			for id := range e.sentCont {
				if !e.acked[id] {
					all = false
					break
				}
			}
			e.mu.Unlock()
			if all {
				break
			}
			time.Sleep(10 * time.Millisecond)
		}
		conns := e.srv.Conns()
		cn := conns[len(conns)-1]
		before := atomic.LoadInt32(&reconnects)
		atomic.AddInt64(&back, []int64{4e9, 90e9, 7200e9}[round%3]) // the clock is set back (4 s, 90 s, 2 h) while the connection is down
		cn.Close()
		ok := false
		for w := 0; w < 1000; w++ {
			if atomic.LoadInt32(&reconnects) > before {
				ok = true
				break
			}
			time.Sleep(10 * time.Millisecond)
		}
		if !ok {
			c.Log.Emit(coreInconclusive("c10 reconnect: reconnect.done not seen (C16 judges that)"))
			return
		}
	}
	e.quiesce(2 * time.Second)
	checkOutgoing(c, idx, e, "reconnect-"+mode, func() (int64, int64) {
		if mode == "native" || mode == "coarse" {
			return wallClock()
		}
		return base - 3*3600e9, base + atomic.LoadInt64(&reads)*1e6 + 60e9
	})
	c.Count("c10.reconnect_histories."+mode, 1)
	c.Distinct("reconnect", rounds, idx, mode)
}

// c10burst: reverse-release gate at send.id.
func c10burst(c *wk.Ctx, idx int, r *rand.Rand, n int) {
	e, err := newRPCEnv(c, idx, r, envOpts{Handler: func(e *rpcEnv, p pendingReq, in *mtp.Inner) bool {
		e.sendGroup(p.conn, [][]byte{e.resultBody(p, wrapOpts{})}, []uint64{p.uid}, false)
		return true
	}})
	if err != nil {
		c.Log.Emit(coreInconclusive("c10 setup: " + err.Error()))
		return
	}
	defer e.close()
	var mu sync.Mutex
	type holder struct{ release chan struct{} }
	var held []*holder
	var arrived, open int32
	lastArrival := time.Now()
	gate := func(name string, arg int64) {
		if name != "send.id" || atomic.LoadInt32(&open) == 1 {
			return
		}
		h := &holder{release: make(chan struct{})}
		mu.Lock()
		held = append(held, h)
		lastArrival = time.Now()
		mu.Unlock()
		atomic.AddInt32(&arrived, 1)
		select {
		case <-h.release:
		case <-time.After(400 * time.Millisecond): // bounded patience: steering may fail, it must never wedge the client
		}
	}
	// releaser: when all n arrived or arrivals dried up, release holders newest first, spaced so that each write completes
	done := make(chan struct{})
	go func() {
		defer close(done)
		for {
			mu.Lock()
			na := len(held)
			quiet := time.Since(lastArrival) > 15*time.Millisecond
			mu.Unlock()
			if na >= n || (na > 0 && quiet) {
				break
			}
			if atomic.LoadInt32(&arrived) == 0 && quiet {
				mu.Lock()
				old := time.Since(lastArrival) > 2*time.Second
				mu.Unlock()
				if old {
					atomic.StoreInt32(&open, 1)
					return
				}
			}
			time.Sleep(time.Millisecond)
		}
		atomic.StoreInt32(&open, 1) // later sends (acknowledgements) pass straight through
		mu.Lock()
		hs := append([]*holder{}, held...)
		mu.Unlock()
		for i := len(hs) - 1; i >= 0; i-- {
			close(hs[i].release)
			time.Sleep(2 * time.Millisecond)
		}
	}()
	theHooks.start(rand.New(rand.NewSource(r.Int63())), map[string]int{}, gate)
	used := map[uint64]bool{}
	var wg sync.WaitGroup
	for i := 0; i < n; i++ {
		wg.Add(1)
		uid := uidFor(r, "object", used)
		go func(i int, uid uint64) {
			defer wg.Done()
			e.doCall(i, uid, "object", false)
		}(i, uid)
	}
	ok := withTimeout(30*time.Second, wg.Wait)
	<-done
	seq := theHooks.stop()
	if !ok {
		c.Log.Emit(coreInconclusive("c10 burst: calls did not return"))
		return
	}
	e.quiesce(2 * time.Second)
	checkOutgoing(c, idx, e, "burst", wallClock)
	mu.Lock()
	c.Count("burst.held_at_send.id", int64(len(held)))
	mu.Unlock()
	c.Distinct("burst", n, interleavingSig(seq))
	if idx%5 == 0 {
		c.Sample(map[string]interface{}{"scenario": "burst", "goroutines": n, "held": len(held)})
	}
}

func c10clock(c *wk.Ctx, idx int, r *rand.Rand, mode string) {
	base := time.Now().UnixNano()
	var calls int64
	lo, hi := base, base
	utils.SetVerifClock(func() int64 {
		k := atomic.AddInt64(&calls, 1)
		var v int64
		switch mode {
		case "frozen":
			v = base + (k/6)*1e6 // the same instant for 6 consecutive reads
		case "backwards":
			v = base + k*1e6
			if k%5 == 0 {
				v -= 3e9 // the wall clock was stepped back 3 s (NTP)
			}
		case "backwards-far":
			// set back for good by 40 s, then an hour, then a day (a wrong clock corrected, a time zone mistake, a VM resumed)
			v = base + k*1e6
			switch {
			case k > 30:
				v -= 86400e9
			case k > 20:
				v -= 3600e9
			case k > 10:
				v -= 40e9
			}
		default: // coarse: 15.6 ms granularity
			v = (time.Now().UnixNano() / 15600000) * 15600000
		}
		return v
	})
	defer utils.SetVerifClock(nil)
	e, err := newRPCEnv(c, idx, r, envOpts{Handler: func(e *rpcEnv, p pendingReq, in *mtp.Inner) bool {
		e.sendGroup(p.conn, [][]byte{e.resultBody(p, wrapOpts{})}, []uint64{p.uid}, false)
		return true
	}})
	if err != nil {
		c.Log.Emit(coreInconclusive("c10 setup: " + err.Error()))
		return
	}
	defer e.close()
	used := map[uint64]bool{}
	n := 6 + r.Intn(10)
	ok := withTimeout(30*time.Second, func() {
		for i := 0; i < n; i++ {
			e.doCall(0, uidFor(r, "object", used), "object", false)
		}
	})
	if !ok {
		c.Log.Emit(coreInconclusive("c10 clock: calls did not return"))
		return
	}
	e.quiesce(2 * time.Second)
	checkOutgoing(c, idx, e, "clock-"+mode, func() (int64, int64) {
		if mode == "coarse" {
			return wallClock()
		}
		if mode == "backwards-far" {
			return lo - 2*86400e9, hi + int64(n*8)*1e6 + 10e9
		}
		return lo - 10e9, hi + int64(n*8)*1e6 + 10e9
	})
	c.Distinct("clock", mode, n)
}

// c10acks: the server injects messages of every dispatch class, content-related and not, plain and in containers.
func c10acks(c *wk.Ctx, idx int, r *rand.Rand) {
	e, err := newRPCEnv(c, idx, r, envOpts{Handler: func(e *rpcEnv, p pendingReq, in *mtp.Inner) bool {
		e.sendGroup(p.conn, [][]byte{e.resultBody(p, wrapOpts{})}, []uint64{p.uid}, false)
		return true
	}})
	if err != nil {
		c.Log.Emit(coreInconclusive("c10 setup: " + err.Error()))
		return
	}
	defer e.close()
	used := map[uint64]bool{}
	// a first call establishes the connection object on the server side
	if !withTimeout(20*time.Second, func() { e.doCall(0, uidFor(r, "object", used), "object", false) }) {
		c.Log.Emit(coreInconclusive("c10 acks: first call did not return"))
		return
	}
	conns := e.srv.Conns()
	if len(conns) == 0 {
		return
	}
	cn := conns[len(conns)-1]
	hist := ""
	if idx%3 == 1 {
		// an old, busy session: the server's seq_no is about to pass 2^31 (odd numbers with the top bit set follow)
		cn.SetSeq(1<<30 - int32(1+r.Intn(3)))
		hist = "seq_no-wrap "
		c.Count("c10.histories_with_seq_no_wrap", 1)
	}
	nitems := 1 + r.Intn(6)
	for i := 0; i < nitems; i++ {
		var body []byte
		kind := ""
		switch r.Intn(4) {
		case 0: // API update object (content-related)
			body = append(le32(0x8216fba3), append(le32(uint32(r.Intn(1000))), le32(uint32(r.Intn(1000)))...)...) // updateUserTyping? use a simple known object below instead
			body = apiUpdateBody(r)
			kind = "update"
		case 1:
			body = refserver.NewSessionCreated(int64(r.Uint64()), int64(r.Uint64()), e.salt())
			kind = "new_session_created"
		case 2:
			body = refserver.Pong(int64(r.Uint64()), int64(r.Uint64()))
			kind = "pong"
		case 3:
			body = refserver.MsgsAck([]int64{int64(r.Uint64())})
			kind = "msgs_ack"
		}
		content := r.Intn(3) != 0
		if kind == "msgs_ack" {
			content = false
		}
		if r.Intn(3) == 0 {
			// inside a container with a second item
			id1, id2 := e.srv.NextMsgID(3), e.srv.NextMsgID(3)
			it1 := refserver.Out{MsgID: id1, SeqNo: cn.NextSeq(content), Body: body}
			it2 := refserver.Out{MsgID: id2, SeqNo: cn.NextSeq(true), Body: apiUpdateBody(r)}
			e.mu.Lock()
			if content {
				e.sentCont[id1] = true
			}
			e.sentCont[id2] = true
			e.mu.Unlock()
			cn.SendEncrypted(refserver.Out{MsgID: e.srv.NextMsgID(3), SeqNo: cn.NextSeq(false), Body: refserver.Container([]refserver.Out{it1, it2})}, e.salt(), "container", nil)
			hist += fmt.Sprintf("C[%s/%v,update/true] ", kind, content)
		} else {
			e.sendService(cn, body, content, kind)
			hist += fmt.Sprintf("%s/%v ", kind, content)
		}
	}
	// a probe after the history, then quiescence
	ok := withTimeout(20*time.Second, func() { e.doCall(0, uidFor(r, "object", used), "object", false) })
	if !ok {
		c.Log.Emit(coreInconclusive("c10 acks: probe did not return after history " + hist))
		return
	}
	e.quiesce(2 * time.Second)
	checkOutgoing(c, idx, e, "ack-history", wallClock)
	// a message delivered again (servers repeat what they believe unacknowledged — the first ack may have been
	// lost): the second reception is a received content-related message like any other. The repeat is sent only
	// after the first ack has arrived, so an ack for it is necessarily a new one.
	if idx%2 == 0 {
		id := e.srv.NextMsgID(3)
		out := refserver.Out{MsgID: id, SeqNo: cn.NextSeq(true), Body: apiUpdateBody(r)}
		waitAcks := func(n int) bool {
			for w := 0; w < 1500; w++ {
				e.mu.Lock()
				got := e.ackCount[id]
				e.mu.Unlock()
				if got >= n {
					return true
				}
				time.Sleep(10 * time.Millisecond)
			}
			return false
		}
		alone := r.Intn(2) == 0
		send := func() {
			if alone {
				cn.SendEncrypted(out, e.salt(), "update", nil)
				return
			}
			fresh := refserver.Out{MsgID: e.srv.NextMsgID(3), SeqNo: cn.NextSeq(true), Body: apiUpdateBody(r)}
			cn.SendEncrypted(refserver.Out{MsgID: e.srv.NextMsgID(3), SeqNo: cn.NextSeq(false), Body: refserver.Container([]refserver.Out{out, fresh})}, e.salt(), "container", nil)
		}
		send()
		if !waitAcks(1) {
			c.Viol("C10", idx, "unacknowledged/ack-history", fmt.Sprintf("content-related server message %d was never named in a msgs_ack", id), nil)
		} else {
			for rep := 2; rep <= 3; rep++ {
				send()
				c.Count("c10.repeated_deliveries", 1)
				if !waitAcks(rep) {
					c.Viol("C10", idx, "unacknowledged/repeated-delivery", fmt.Sprintf("server message %d was delivered %d times (the repeats after its first acknowledgement had arrived) but named in msgs_ack only %d times: a reception was left unanswered", id, rep, rep-1), nil)
					break
				}
			}
		}
		hist += "repeat "
	}
	c.Distinct("ackhist", hist)
	if idx%5 == 0 {
		c.Sample(map[string]interface{}{"scenario": "ack-history", "server_messages": hist})
	}
}

// apiUpdateBody: updateShort#78d4dec1 update:Update date:int with updateUserTyping-free simple update:
// updateContactsReset#7084a7be = Update
func apiUpdateBody(r *rand.Rand) []byte {
	b := le32(0x78d4dec1)
	b = append(b, le32(0x7084a7be)...)
	return append(b, le32(uint32(r.Intn(1<<30)))...)
}
