package wl

import (
	"fmt"
	"math/rand"
	"sync"
	"sync/atomic"
	"time"

	"github.com/xelaj/mtproto/internal/encoding/tl"
	"github.com/xelaj/mtproto/internal/utils"

	"github.com/xelaj/mtproto/zverif/ref/mtp"
	"github.com/xelaj/mtproto/zverif/wk"
)

func init() {
	wk.Register("c09", c09)
	wk.Register("c09table", c09table)
}

// c09table: the table that maps request ids to waiting callers, driven directly by many goroutines with unique
// keys: Add(k) then Get(k) must find exactly the channel added (nobody else touches k) until the owner's
// Delete(k), which must report that the key was there. Few keys live at any time, so the table becomes empty
// again and again. This is the exactly-once rule of the dispatch table at its own boundary.
func c09table(c *wk.Ctx) {
	idx := 0
	for round := 0; round < c.Pick(4, 40); round++ {
		if c.Mine(idx) {
			c.Begin(idx, fmt.Sprintf("table round %d", round))
			tbl := utils.NewSyncIntObjectChan()
			workers := 2 + round%7
			per := c.Pick(60000, 400000)
			var lost, wrong, undeleted int64
			var wg sync.WaitGroup
			for w := 0; w < workers; w++ {
				wg.Add(1)
				go func(w int) {
					defer wg.Done()
					ch := make(chan tl.Object)
					for i := 0; i < per; i++ {
						k := w*per*2 + i + 1
						tbl.Add(k, ch)
						got, ok := tbl.Get(k)
						if !ok {
							atomic.AddInt64(&lost, 1)
						} else if got != ch {
							atomic.AddInt64(&wrong, 1)
						}
						if i%3 == 0 {
							_ = tbl.Keys()
						}
						if !tbl.Delete(k) && ok {
							atomic.AddInt64(&undeleted, 1)
						}
						if tbl.Has(k) {
							atomic.AddInt64(&wrong, 1)
						}
					}
				}(w)
			}
			wg.Wait()
			c.Count("table.operations", int64(workers*per*4))
			c.Distinct("table", round, workers)
			if lost > 0 || wrong > 0 || undeleted > 0 {
				c.Viol("C09", idx, "table/entry-lost", fmt.Sprintf("%d goroutines x %d add/get/delete cycles on unique keys: %d entries were not found right after being added, %d wrong, %d not deletable — a caller registered in the table would never receive its result", workers, per, lost, wrong, undeleted), nil)
			}
			if round == 0 {
				c.Sample(map[string]interface{}{"workload": "response table under concurrent add/get/delete with unique keys", "goroutines": workers, "cycles_each": per})
			}
		}
		idx++
	}
}

type rpcScenario struct {
	Callers    int
	PerCaller  int
	Kinds      []string
	Batch      int     // server releases when this many answers are pending (or on idle)
	PContainer float64 // probability a released group goes out as a container
	PGzipRes   float64
	PGzipMsg   float64
	PError     float64
	ViaClient  bool
	Delays     map[string]int
	Seed       bool // the fixed seed history
	Big        bool // every vector-long answer is a big one (hundreds of KiB)
}

func randScenario(r *rand.Rand, thorough bool) rpcScenario {
	sc := rpcScenario{Callers: 1 + r.Intn(8), PerCaller: 1 + r.Intn(5), Batch: 1 + r.Intn(6)}
	if thorough && r.Intn(4) == 0 {
		sc.Callers = 8 + r.Intn(40)
	}
	if r.Intn(3) == 0 {
		sc.Callers = 2 + r.Intn(3)
	}
	nk := 1 + r.Intn(len(rpcKinds))
	perm := r.Perm(len(rpcKinds))
	for i := 0; i < nk; i++ {
		sc.Kinds = append(sc.Kinds, rpcKinds[perm[i]])
	}
	sc.PContainer = []float64{0, 0.3, 0.7, 1}[r.Intn(4)]
	sc.PGzipRes = []float64{0, 0, 0.3, 1}[r.Intn(4)]
	sc.PGzipMsg = []float64{0, 0, 0.2}[r.Intn(3)]
	sc.PError = []float64{0, 0, 0.2, 0.5}[r.Intn(4)]
	sc.ViaClient = r.Intn(2) == 0
	sc.Delays = map[string]int{}
	for _, p := range []string{"send.enter", "send.id", "send.written", "wire.written", "call.sent", "recv.frame", "recv.dispatch", "rpc.deliver.before", "rpc.deliver.after", "ack.before", "call.got"} {
		if r.Intn(2) == 0 {
			sc.Delays[p] = []int{50, 300, 2000}[r.Intn(3)]
		}
	}
	return sc
}

type scenarioResult struct {
	Calls      []callRec
	Unfinished int
	Stalled    bool
	Dump       string
	HookSeq    []string
	Groups     []string
}

// runRPCScenario drives callers against the environment while a releaser answers in scripted order/wrapping.
func runRPCScenario(e *rpcEnv, r *rand.Rand, sc rpcScenario) scenarioResult {
	var out scenarioResult
	total := sc.Callers * sc.PerCaller
	used := map[uint64]bool{}
	type job struct {
		uid  uint64
		kind string
	}
	jobs := make([][]job, sc.Callers)
	for ci := range jobs {
		for k := 0; k < sc.PerCaller; k++ {
			kind := sc.Kinds[r.Intn(len(sc.Kinds))]
			uid := uidFor(r, kind, used)
			for sc.Big && kind == "vector-long" && bigLen(uid) == 0 {
				uid = uidFor(r, kind, used)
			}
			jobs[ci] = append(jobs[ci], job{uid, kind})
		}
	}
	errUID := func(uid uint64) bool { return sc.PError > 0 && float64(stamp(uid^0x5555)%1000)/1000 < sc.PError }
	// releaser
	stop := make(chan struct{})
	var relWG sync.WaitGroup
	relR := rand.New(rand.NewSource(r.Int63()))
	answered := 0
	var amu sync.Mutex
	relWG.Add(1)
	go func() {
		defer relWG.Done()
		idle := 0
		for {
			select {
			case <-stop:
				return
			case <-e.newReq:
				idle = 0
			case <-time.After(8 * time.Millisecond):
				idle++
			}
			e.mu.Lock()
			np := len(e.pending)
			e.mu.Unlock()
			if np == 0 || (np < sc.Batch && idle < 2) {
				continue
			}
			p := e.takePending()
			relR.Shuffle(len(p), func(i, j int) { p[i], p[j] = p[j], p[i] })
			for len(p) > 0 {
				g := 1 + relR.Intn(len(p))
				if relR.Float64() >= sc.PContainer {
					g = 1
				}
				grp := p[:g]
				p = p[g:]
				var bodies [][]byte
				var uids []uint64
				desc := ""
				for _, q := range grp {
					o := wrapOpts{GzipResult: relR.Float64() < sc.PGzipRes, GzipMessage: relR.Float64() < sc.PGzipMsg, AsError: errUID(q.uid)}
					bodies = append(bodies, e.resultBody(q, o))
					uids = append(uids, q.uid)
					desc += fmt.Sprintf("%s%s%s%s,", q.kind[:1], map[bool]string{true: "z"}[o.GzipResult], map[bool]string{true: "Z"}[o.GzipMessage], map[bool]string{true: "E"}[o.AsError])
				}
				force := g == 1 && relR.Float64() < sc.PContainer/2
				if g > 1 || force {
					desc = "C[" + desc + "]"
				}
				amu.Lock()
				out.Groups = append(out.Groups, desc)
				answered += g
				amu.Unlock()
				e.sendGroup(grp[0].conn, bodies, uids, force)
			}
		}
	}()
	theHooks.start(rand.New(rand.NewSource(r.Int63())), sc.Delays, nil)
	recs := make([][]callRec, sc.Callers)
	var wg sync.WaitGroup
	for ci := 0; ci < sc.Callers; ci++ {
		wg.Add(1)
		go func(ci int) {
			defer wg.Done()
			for _, j := range jobs[ci] {
				recs[ci] = append(recs[ci], e.doCall(ci, j.uid, j.kind, sc.ViaClient))
			}
		}(ci)
	}
	finished := withTimeout(40*time.Second, wg.Wait)
	if !finished {
		out.Stalled, out.Dump = isStalled()
		// "nobody can move" includes the peer: if the reference server still holds answers, the client is merely waiting
		e.mu.Lock()
		if len(e.pending) > 0 {
			out.Stalled = false
		}
		e.mu.Unlock()
	}
	e.quiesce(2 * time.Second)
	out.HookSeq = theHooks.stop()
	close(stop)
	relWG.Wait()
	done := 0
	if finished {
		for ci := range recs {
			for _, rc := range recs[ci] {
				rc2 := rc
				if errUID(rc.UID) {
					// the caller must get its own rpc_error
					rc2.OK = rc.ErrCode == int(400+rc.UID%100) && rc.Got == fmt.Sprintf("UID_%d_ERROR", rc.UID) && rc.Panic == ""
					if rc2.OK {
						rc2.Err = ""
					}
				}
				out.Calls = append(out.Calls, rc2)
				done++
			}
		}
	}
	out.Unfinished = total - done
	return out
}

func c09(c *wk.Ctx) {
	idx := 0
	n := c.Pick(120, 3000)
	for k := 0; k < n; k++ {
		if c.Mine(idx) {
			r := c.Rand(idx)
			sc := randScenario(r, !c.Quick())
			if k == 0 {
				sc = rpcScenario{Callers: 1, PerCaller: 1, Kinds: []string{"vector-int"}, Batch: 1, Seed: true, Delays: map[string]int{}}
			}
			if k == 2 || k == 3 {
				// scripted interleaving: the server answers at once while every sender is held right after its socket
				// write — the answer is dispatched before the sender runs again
				sc = rpcScenario{Callers: 1 + (k-2)*3, PerCaller: 3, Kinds: []string{"object", "vector-int"}, Batch: 1, Delays: map[string]int{[]string{"send.written", "wire.written"}[k-2]: hookAlways + 4000}}
			}
			if k == 4 {
				// ... and the mirror image: the receive loop is held before delivering while senders run ahead
				sc = rpcScenario{Callers: 4, PerCaller: 3, Kinds: []string{"bool", "vector-long"}, Batch: 1, Delays: map[string]int{"rpc.deliver.before": hookAlways + 3000, "recv.dispatch": hookAlways + 1000}}
			}
			if k == 1 {
				sc = rpcScenario{Callers: 2, PerCaller: 2, Kinds: []string{"vector-object", "bool"}, Batch: 2, PContainer: 1, PGzipRes: 1, Delays: map[string]int{}}
			}
			if k == 9 || (!c.Quick() && k == 10) {
				// a crowd: hundreds of goroutines calling at once (more than any internal limit on requests in flight a
				// client might have), answered in large batches
				sc = rpcScenario{Callers: map[int]int{9: 300, 10: 1200}[k], PerCaller: 1, Kinds: rpcKinds, Batch: 64, PContainer: 0.5, PGzipRes: 0.2, Delays: map[string]int{}}
			}
			if k == 5 || k == 6 || (!c.Quick() && (k == 7 || k == 8)) {
				// a slow caller: held for more than a second (thorough: 3 s and 11 s) between its socket write and its
				// wait for the answer, which the server has long sent — the answer must still be there for it
				hold := map[int]int{5: 1300000, 6: 1300000, 7: 3200000, 8: 11000000}[k]
				point := map[int]string{5: "call.sent", 6: "send.written", 7: "call.sent", 8: "call.sent"}[k]
				sc = rpcScenario{Callers: 2, PerCaller: 1, Kinds: []string{"object", "vector-long"}, Batch: 1, Delays: map[string]int{point: hookAlways + hold}}
			}
			c.Begin(idx, toJSON(sc))
			c09case(c, idx, r, sc)
		}
		idx++
	}
	theHooks.flushCounts(c)
}

func c09case(c *wk.Ctx, idx int, r *rand.Rand, sc rpcScenario) {
	// one scenario in four runs on a session keyed in this process (a key exchange first) instead of a resumed one:
	// whatever the exchange leaves behind in the client (service mode, its channel, table entries) is there now
	fresh := idx%4 == 2 && !sc.Seed
	if fresh {
		c.Count("scenario.freshly_keyed_session", 1)
	}
	e, err := newRPCEnv(c, idx, r, envOpts{Fresh: fresh})
	if err != nil {
		c.Viol("C09", idx, "setup", "connection could not be established: "+err.Error(), sc)
		return
	}
	defer e.close()
	// a second, independent client in the same process (its own server, key and session) keeps calling while the
	// scenario runs: whatever the library shares between instances (package-level tables, pools, scratch) is shared now
	var noiseWG sync.WaitGroup
	noiseStop := make(chan struct{})
	var noise []callRec
	if idx%4 == 2 {
		r2 := rand.New(rand.NewSource(r.Int63()))
		e2, err2 := newRPCEnv(c, idx+1<<20, r2, envOpts{Handler: func(e *rpcEnv, p pendingReq, in *mtp.Inner) bool {
			e.sendGroup(p.conn, [][]byte{e.resultBody(p, wrapOpts{GzipResult: p.uid%4 != 0})}, []uint64{p.uid}, p.uid%5 == 0)
			return true
		}})
		if idx%8 == 2 {
			// both clients unpack big packed answers at the same time
			sc.PGzipRes, sc.Big, sc.Kinds, sc.PError = 1, true, []string{"vector-long"}, 0
			if sc.Callers < 3 {
				sc.Callers = 3
			}
			if sc.PerCaller < 4 {
				sc.PerCaller = 4
			}
		}
		if err2 == nil {
			defer e2.close()
			var nmu sync.Mutex
			used2 := map[uint64]bool{}
			for g := 0; g < 3; g++ {
				noiseWG.Add(1)
				rg := rand.New(rand.NewSource(r2.Int63()))
				go func(g int) {
					defer noiseWG.Done()
					for k := 0; k < 300; k++ {
						select {
						case <-noiseStop:
							return
						default:
						}
						kind := rpcKinds[rg.Intn(len(rpcKinds))]
						if sc.Big {
							kind = "vector-long"
						}
						nmu.Lock()
						uid := uidFor(rg, kind, used2)
						for sc.Big && bigLen(uid) == 0 {
							uid = uidFor(rg, kind, used2)
						}
						nmu.Unlock()
						var rec callRec
						if !withTimeout(20*time.Second, func() { rec = e2.doCall(100+g, uid, kind, k%2 == 0) }) {
							rec = callRec{Kind: kind, Err: "did not return"}
						}
						nmu.Lock()
						noise = append(noise, rec)
						nmu.Unlock()
						if rec.Err != "" {
							return
						}
					}
				}(g)
			}
			c.Count("scenarios.with_second_client", 1)
		}
	}
	res := runRPCScenario(e, r, sc)
	close(noiseStop)
	noiseWG.Wait()
	for _, rc := range noise {
		c.Count("calls.second_client", 1)
		if rc.Panic != "" || rc.Err != "" || !rc.OK {
			c.Viol("C09", idx, "second-client/"+rc.Kind, fmt.Sprintf("an independent client in the same process, calling while the scenario ran: uid=%d kind=%s panic=%q err=%q got=%q", rc.UID, rc.Kind, rc.Panic, rc.Err, rc.Got), sc)
			break
		}
	}
	shape := fmt.Sprintf("callers=%d kinds=%v", sc.Callers, sc.Kinds)
	if res.Unfinished > 0 {
		if res.Stalled {
			c.Viol("C09", idx, "stall", fmt.Sprintf("%d calls never returned and nothing can move (%s; answer groups %v)", res.Unfinished, shape, res.Groups), res.Dump)
		} else {
			c.Log.Emit(coreInconclusive(fmt.Sprintf("c09: %d calls did not return within the watchdog (%s)", res.Unfinished, shape)))
		}
		return
	}
	seen := map[string]bool{}
	for _, rc := range res.Calls {
		c.Count("calls", 1)
		c.Count("calls."+rc.Kind, 1)
		switch {
		case rc.Panic != "":
			c.Viol("C09", idx, "caller-panic/"+rc.Kind, fmt.Sprintf("call uid=%d kind=%s via %s panicked: %s", rc.UID, rc.Kind, rc.Via, rc.Panic), sc)
		case rc.Err != "":
			c.Viol("C09", idx, "caller-error/"+rc.Kind, fmt.Sprintf("call uid=%d kind=%s via %s: %s (answer groups %v)", rc.UID, rc.Kind, rc.Via, rc.Err, res.Groups), sc)
		case !rc.OK:
			c.Viol("C09", idx, "wrong-result/"+rc.Kind, fmt.Sprintf("call uid=%d kind=%s via %s got %s — not the answer addressed to its request", rc.UID, rc.Kind, rc.Via, rc.Got), sc)
		}
		key := fmt.Sprintf("%s|%s", rc.Kind, rc.Got)
		if rc.OK && rc.Kind != "bool" && rc.Err == "" && seen[key] {
			c.Viol("C09", idx, "duplicate-result", fmt.Sprintf("two calls received the same answer %s", rc.Got), sc)
		}
		seen[key] = true
	}
	c.Distinct("interleaving", interleavingSig(res.HookSeq))
	c.Distinct("shape", fmt.Sprint(res.Groups))
	c.Count("hook.sequences", 1)
	if idx%7 == 0 {
		c.Sample(map[string]interface{}{"scenario": sc, "answer_groups": res.Groups, "hook_events": len(res.HookSeq)})
	}
}
