package wl

import (
	"encoding/hex"
	"encoding/json"
	"fmt"
	"math/rand"
	"os"
	"sync/atomic"
	"time"

	"github.com/xelaj/mtproto/zverif/ref/mtp"
	"github.com/xelaj/mtproto/zverif/refserver"
	"github.com/xelaj/mtproto/zverif/wk"
)

func init() { wk.Register("c07", c07) }

type c07fault struct {
	Site string // resPQ.nonce, resPQ.fingerprints, dh.nonce, dh.server_nonce, dh.answer, inner.nonce, inner.server_nonce, gen.nonce, gen.server_nonce, gen.hash, ctor
	How  string
	Arg  int
}

func c07faults(c *wk.Ctx) []c07fault {
	var out []c07fault
	nonceSites := []string{"resPQ.nonce", "dh.nonce", "dh.server_nonce", "inner.nonce", "inner.server_nonce", "gen.nonce", "gen.server_nonce"}
	var bits []int
	if c.Quick() {
		bits = []int{0, 7, 64, 127}
	} else {
		for b := 0; b < 128; b++ {
			bits = append(bits, b)
		}
	}
	for _, s := range nonceSites {
		for _, b := range bits {
			out = append(out, c07fault{s, "bitflip", b})
		}
		out = append(out, c07fault{s, "random", 0}, c07fault{s, "other-nonce", 0}, c07fault{s, "zero", 0})
	}
	for _, h := range []string{"empty", "one-wrong", "many-wrong", "off-by-one", "byte-swapped"} {
		out = append(out, c07fault{"resPQ.fingerprints", h, 0})
	}
	for _, h := range []string{"flip-first-block", "flip-middle-block", "flip-last-block", "hash-altered", "content-altered-stale-hash", "length-not-multiple-of-16", "truncated-to-16", "empty", "pad-16", "pad-32"} {
		out = append(out, c07fault{"dh.answer", h, 0})
	}
	// every block-aligned length shorter than the honest answer (0 = one block short of it)
	cuts := []int{32, 48, 64, 0}
	if !c.Quick() {
		cuts = nil
		for n := 32; n <= 640; n += 16 {
			cuts = append(cuts, n)
		}
		cuts = append(cuts, 0)
	}
	for _, n := range cuts {
		out = append(out, c07fault{"dh.answer", "truncated-to", n})
	}
	hb := []int{0, 8, 127}
	if !c.Quick() {
		hb = bits
	}
	for _, b := range hb {
		out = append(out, c07fault{"gen.hash", "bitflip", b})
	}
	out = append(out, c07fault{"gen.hash", "hash2", 0}, c07fault{"gen.hash", "hash3", 0}, c07fault{"gen.hash", "zero", 0}, c07fault{"gen.hash", "random", 0})
	for _, k := range []string{"server_DH_params_fail", "dh_gen_retry", "dh_gen_fail", "resPQ-as-dh-reply", "dh_gen_ok-as-dh-reply", "rpc_error-as-resPQ"} {
		out = append(out, c07fault{"ctor", k, 0})
	}
	// the decrypted answer is authentic (its SHA-1 prefix matches) but is not a server_DH_inner_data
	for _, k := range []string{"inner-is-dh_gen_ok", "inner-is-resPQ", "inner-garbage", "inner-truncated", "inner-empty", "inner-unregistered-id"} {
		out = append(out, c07fault{"dh.inner", k, 0})
	}
	// a registered object of the wrong kind in place of each of the three replies
	for stage := 1; stage <= 3; stage++ {
		for _, k := range []string{"pong", "rpc_error", "dh_gen_ok", "new_session_created", "bool"} {
			out = append(out, c07fault{fmt.Sprintf("reply%d", stage), k, 0})
		}
	}
	return out
}

func c07(c *wk.Ctx) {
	idx := 0
	for rep := 0; rep < c.Pick(1, 3); rep++ {
		for _, f := range c07faults(c) {
			if c.Mine(idx) {
				b, _ := json.Marshal(f)
				c.Begin(idx, string(b))
				c07case(c, idx, c.Rand(idx), f)
			}
			idx++
		}
	}
}

func mutNonce(r *rand.Rand, v, other []byte, f c07fault) []byte {
	out := append([]byte{}, v...)
	switch f.How {
	case "bitflip":
		out[f.Arg/8] ^= 1 << uint(f.Arg%8)
	case "random":
		r.Read(out)
	case "other-nonce":
		copy(out, other)
	case "zero":
		for i := range out {
			out[i] = 0
		}
	}
	return out
}

func c07case(c *wk.Ctx, idx int, r *rand.Rand, f c07fault) {
	w := newWorld(c, idx)
	defer w.close()
	srv := w.server(refserver.HandlerFunc(func(cn *refserver.Conn, in *mtp.Inner) {}))
	applied := false
	var authKeyForHash []byte
	var honest int32 // set for the retry after the aborted exchange: the server then follows the specification
	srv.Tamper = func(h *refserver.HSFields) {
		if atomic.LoadInt32(&honest) == 1 {
			return
		}
		if h.Stage == "dh_gen" && h.AuthKey != nil && idx%2 == 0 {
			// the liar already holds g^ab: in front of its last reply it pushes service traffic sealed with that
			// unproven key (a salt announcement, a salt rejection, an update)
			for _, body := range [][]byte{refserver.NewSessionCreated(1, int64(r.Uint64()), int64(r.Uint64())), refserver.BadServerSalt(4, 1, int64(r.Uint64())), apiUpdateBody(r)} {
				in := mtp.Inner{Salt: h.Salt, Session: int64(r.Uint64()), MsgID: srv.NextMsgID(1), SeqNo: 1, Body: body}
				h.RawBefore = append(h.RawBefore, mtp.Seal(h.AuthKey, in, 8, rbytes(r, (16-(32+len(body))%16)%16)))
			}
		}
		switch {
		case f.Site == "resPQ.nonce" && h.Stage == "resPQ":
			h.Nonce = mutNonce(r, h.Nonce, h.ServerNonce, f)
			applied = true
		case f.Site == "resPQ.fingerprints" && h.Stage == "resPQ":
			good := h.Fingerprints[0]
			switch f.How {
			case "empty":
				h.Fingerprints = nil
			case "one-wrong":
				h.Fingerprints = []int64{int64(r.Uint64())}
			case "many-wrong":
				h.Fingerprints = []int64{int64(r.Uint64()), int64(r.Uint64()), int64(r.Uint64()), 0, -1}
			case "off-by-one":
				h.Fingerprints = []int64{good + 1, good - 1}
			case "byte-swapped":
				var sw int64
				for i := 0; i < 8; i++ {
					sw = sw<<8 | (good>>(8*uint(i)))&0xff
				}
				h.Fingerprints = []int64{sw}
			}
			applied = true
		case f.Site == "dh.nonce" && h.Stage == "dh_params":
			h.Nonce = mutNonce(r, h.Nonce, h.ServerNonce, f)
			applied = true
		case f.Site == "dh.server_nonce" && h.Stage == "dh_params":
			h.ServerNonce = mutNonce(r, h.ServerNonce, h.Nonce, f)
			applied = true
		case f.Site == "inner.nonce" && h.Stage == "dh_params":
			h.InnerNonce = mutNonce(r, h.InnerNonce, h.InnerServerNonce, f)
			applied = true
		case f.Site == "inner.server_nonce" && h.Stage == "dh_params":
			h.InnerServerNonce = mutNonce(r, h.InnerServerNonce, h.InnerNonce, f)
			applied = true
		case f.Site == "dh.answer" && h.Stage == "dh_params":
			applied = true
			switch f.How {
			case "flip-first-block":
				h.PostSeal = func(e []byte) []byte { e[3] ^= 0x10; return e }
			case "flip-middle-block":
				h.PostSeal = func(e []byte) []byte { e[len(e)/32*16+5] ^= 0x01; return e }
			case "flip-last-block":
				h.PostSeal = func(e []byte) []byte { e[len(e)-1] ^= 0x80; return e }
			case "hash-altered":
				h.HashXor = []byte{0, 0, 0, 0, 1}
			case "content-altered-stale-hash":
				// seal honestly, then re-seal different content under the old hash: emulate by xoring the hash with the
				// difference — equivalent for the client: prefix does not match content
				h.HashXor = []byte{0xff}
				h.ServerTime ^= 0x55
			case "length-not-multiple-of-16":
				h.AnswerPad = ((16 - (20+0)%16) % 16) + 3 // any value that breaks alignment is computed by the server: force odd padding
				h.PostSeal = func(e []byte) []byte { return append(e, 1, 2, 3) }
			case "truncated-to-16":
				h.PostSeal = func(e []byte) []byte { return e[:16] }
			case "truncated-to":
				h.PostSeal = func(e []byte) []byte {
					n := f.Arg
					if n <= 0 || n >= len(e) {
						n = len(e) - 16
					}
					return e[:n:n]
				}
			case "empty":
				h.PostSeal = func(e []byte) []byte { return nil }
			case "pad-16":
				h.PostSeal = nil
				h.AnswerPad = -2 // handled below: minimal + 16
			case "pad-32":
				h.AnswerPad = -3
			}
		case f.Site == "dh.inner" && h.Stage == "dh_params":
			applied = true
			h.InnerOverride = func(honest []byte) []byte {
				switch f.How {
				case "inner-is-dh_gen_ok":
					return append(append(append(le32(0x3bcbf734), h.Nonce...), h.ServerNonce...), rbytes(r, 16)...)
				case "inner-is-resPQ":
					b := append(append(le32(0x05162463), h.Nonce...), h.ServerNonce...)
					b = append(b, mtp.TLBytes([]byte{1, 2, 3, 4, 5, 6, 7, 8})...)
					return append(b, vecLong(1)...)
				case "inner-garbage":
					return rbytes(r, len(honest))
				case "inner-truncated":
					return honest[:len(honest)/2/4*4]
				case "inner-empty":
					return nil
				default:
					return append(le32(0xdeadbeef), honest[4:]...)
				}
			}
		case len(f.Site) == 6 && f.Site[:5] == "reply" && map[string]string{"reply1": "resPQ", "reply2": "dh_params", "reply3": "dh_gen"}[f.Site] == h.Stage:
			applied = true
			switch f.How {
			case "pong":
				h.ReplyOverride = refserver.Pong(1, 2)
			case "rpc_error":
				h.ReplyOverride = refserver.RPCError(500, "INTERNAL")
			case "dh_gen_ok":
				h.ReplyOverride = append(append(append(le32(0x3bcbf734), h.Nonce...), h.ServerNonce...), rbytes(r, 16)...)
			case "new_session_created":
				h.ReplyOverride = refserver.NewSessionCreated(1, 2, 3)
			case "bool":
				h.ReplyOverride = le32(0x997275b5)
			}
			if f.Site == "reply3" && f.How == "dh_gen_ok" {
				h.ReplyOverride = refserver.Pong(3, 4) // dh_gen_ok is the honest reply of stage 3
			}
		case f.Site == "gen.nonce" && h.Stage == "dh_gen":
			h.Nonce = mutNonce(r, h.Nonce, h.ServerNonce, f)
			applied = true
		case f.Site == "gen.server_nonce" && h.Stage == "dh_gen":
			h.ServerNonce = mutNonce(r, h.ServerNonce, h.Nonce, f)
			applied = true
		case f.Site == "gen.hash" && h.Stage == "dh_gen":
			applied = true
			switch f.How {
			case "bitflip":
				h.NewNonceHash = append([]byte{}, h.NewNonceHash...)
				h.NewNonceHash[f.Arg/8] ^= 1 << uint(f.Arg%8)
			case "zero":
				h.NewNonceHash = make([]byte, 16)
			case "random":
				h.NewNonceHash = rbytes(r, 16)
			case "hash2", "hash3":
				_ = authKeyForHash
				// the value that belongs to dh_gen_retry (marker 2) resp. dh_gen_fail (marker 3), inside a dh_gen_ok
				marker := byte(2)
				if f.How == "hash3" {
					marker = 3
				}
				if h.AuthKey != nil && h.NewNonce != nil {
					h.NewNonceHash = mtp.NewNonceHash(h.NewNonce, h.AuthKey, marker)
				} else {
					x := append([]byte{}, h.NewNonceHash...)
					for i := range x {
						x[i] ^= byte(0x21 + i)
					}
					h.NewNonceHash = x
				}
			}
		case f.Site == "ctor":
			switch {
			case f.How == "server_DH_params_fail" && h.Stage == "dh_params":
				h.Constructor = 0x79cb045d
				applied = true
			case f.How == "dh_gen_retry" && h.Stage == "dh_gen":
				h.Constructor = 0x46dc1fb9
				applied = true
			case f.How == "dh_gen_fail" && h.Stage == "dh_gen":
				h.Constructor = 0xa69dae02
				applied = true
			case f.How == "resPQ-as-dh-reply" && h.Stage == "dh_params":
				h.Constructor = 0x79cb045d
				h.Nonce = rbytes(r, 16)
				applied = true
			case f.How == "dh_gen_ok-as-dh-reply" && h.Stage == "dh_params":
				h.Constructor = 0x79cb045d
				h.ServerNonce = rbytes(r, 16)
				applied = true
			case f.How == "rpc_error-as-resPQ" && h.Stage == "resPQ":
				h.Fingerprints = nil
				h.Nonce = rbytes(r, 16)
				applied = true
			}
		}
	}
	sess := w.sessionPath("s")
	m, err := w.client(srv.Addr, sess, srv)
	if err != nil {
		c.Viol("C07", idx, "new-client", err.Error(), nil)
		return
	}
	tag := f.Site + "/" + f.How
	var cerr error
	var pan bool
	var pm, st string
	done := withTimeout(45*time.Second, func() { pan, pm, st = wk.Guard(func() { cerr = m.CreateConnection() }) })
	defer safeDisconnect(m)
	if !applied && done && !pan && cerr == nil {
		c.Log.Emit(coreInconclusive("c07: fault " + tag + " was never applied"))
		return
	}
	c.Distinct("fault", f.Site, f.How, f.Arg)
	if idx%17 == 0 {
		c.Sample(f)
	}
	switch {
	case !done:
		if stalled, dump := isStalled(); stalled {
			c.Viol("C07", idx, "stall/"+tag, "CreateConnection never returned after the inconsistent reply and nothing can move", dump)
		} else {
			c.Log.Emit(coreInconclusive("c07: CreateConnection did not return within the watchdog for " + tag))
		}
		return
	case pan:
		c.Viol("C07", idx, "panic/"+f.Site+"/"+st, fmt.Sprintf("fault %s arg %d: CreateConnection panicked instead of returning an error: %s", tag, f.Arg, wk.Short(pm, 300)), f)
	case cerr == nil:
		c.Viol("C07", idx, "accepted/"+tag, fmt.Sprintf("fault %s arg %d: key exchange completed although the reply was inconsistent", tag, f.Arg), f)
	}
	// a lying server may go on: after the client has given up, it sends encrypted service traffic under the key it
	// computed (new_session_created announcing a salt, then an update) — still nothing may be persisted or sent
	if hsKey, hsSalt, ok := c07serverKey(w); ok {
		for _, cn := range srv.Conns() {
			pad := func(n int) []byte { return rbytes(r, (16-(32+n)%16)%16) }
			for _, body := range [][]byte{refserver.NewSessionCreated(1, int64(r.Uint64()), int64(r.Uint64())), apiUpdateBody(r)} {
				in := mtp.Inner{Salt: hsSalt, Session: int64(r.Uint64()), MsgID: srv.NextMsgID(1), SeqNo: 1, Body: body}
				cn.SendRaw(mtp.Seal(hsKey, in, 8, pad(len(body))))
			}
		}
		c.Count("followup.encrypted_after_abort", 1)
		time.Sleep(60 * time.Millisecond)
	}
	// the application (or the client's own reconnect) tries again on the same client object, and this time the server
	// is honest: either that fails, or a complete new exchange takes place — the key of the abandoned one is never used
	if done && !pan && cerr != nil && idx%3 != 2 {
		doneBefore := countEv(w, "hs.done")
		atomic.StoreInt32(&honest, 1)
		var rerr error
		var rpan bool
		var rpm string
		rdone := withTimeout(45*time.Second, func() {
			rpan, rpm, _ = wk.Guard(func() {
				m.Disconnect()
				rerr = m.CreateConnection()
			})
		})
		c.Count("retry.after_abort", 1)
		switch {
		case !rdone:
			if stalled, dump := isStalled(); stalled {
				c.Viol("C07", idx, "retry-stall/"+tag, "after the abandoned exchange, Disconnect+CreateConnection on the same client never returns and nothing can move", dump)
			} else {
				c.Log.Emit(coreInconclusive("c07: retry did not return within the watchdog for " + tag))
			}
			return
		case rpan:
			c.Viol("C07", idx, "retry-panic/"+f.Site, rpm, f)
			return
		case rerr == nil && countEv(w, "hs.done") == doneBefore:
			c.Viol("C07", idx, "retry-skipped-key-exchange/"+tag, "after the abandoned exchange, CreateConnection on the same client reports success without a new key exchange: the client goes on with the key the server never proved", f)
			return
		case rerr == nil:
			// a new, consistent exchange: its session may be stored and used — the checks below concern the abandoned one
			c.Count("retry.new_exchange_completed", 1)
			return
		}
	}
	// bounded drain, then: nothing persisted, nothing encrypted ever sent
	time.Sleep(30 * time.Millisecond)
	if _, err := os.Stat(sess); err == nil {
		c.Viol("C07", idx, "session-persisted/"+tag, "a session file exists after an abandoned key exchange", f)
	}
	enc := 0
	w.mu.Lock()
	for _, e := range w.evs {
		if e.Ev == "srv.recv" || (e.Ev == "srv.badframe" && !jsonHas(e.Data, "plain")) {
			enc++
		}
	}
	w.mu.Unlock()
	if enc > 0 {
		c.Viol("C07", idx, "encrypted-frame-sent/"+tag, fmt.Sprintf("%d encrypted frames reached the server after an inconsistent key exchange", enc), f)
	}
}

func jsonHas(raw json.RawMessage, key string) bool {
	var d map[string]interface{}
	json.Unmarshal(raw, &d)
	_, ok := d[key]
	return ok
}

// c07serverKey returns the auth key and salt the server derived, if the exchange got that far.
func c07serverKey(w *world) ([]byte, int64, bool) {
	w.mu.Lock()
	defer w.mu.Unlock()
	for _, e := range w.evs {
		if e.Ev == "hs.done" {
			var d map[string]interface{}
			json.Unmarshal(e.Data, &d)
			k, err := hex.DecodeString(fmt.Sprint(d["auth_key"]))
			var salt int64
			fmt.Sscan(fmt.Sprint(d["salt"]), &salt)
			if err == nil && len(k) == 256 {
				return k, salt, true
			}
		}
	}
	return nil, 0, false
}
