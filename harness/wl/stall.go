package wl

import (
	"regexp"
	"runtime"
	"strings"
	"time"
)

var reGoroutineHdr = regexp.MustCompile(`(?m)^goroutine \d+ \[([^\]]+)\]:$`)

// isStalled decides "nobody can move" from the state of the program, not from elapsed time: two full
// goroutine dumps taken a poll apart must show every /repo goroutine parked in the same place, in a
// blocking state (chan send/receive, select, IO wait, sync.Mutex.Lock, semacquire). A goroutine in time.Sleep is NOT
// parked for good — it wakes by itself (an injected delay, a back-off) — so its presence means "can still move".
func isStalled() (bool, string) {
	d1 := repoGoroutines()
	time.Sleep(300 * time.Millisecond)
	d2 := repoGoroutines()
	if d1 != d2 || d1 == "" {
		return false, d2
	}
	for _, blk := range strings.Split(d2, "\n\n") {
		m := reGoroutineHdr.FindStringSubmatch(blk)
		if m == nil {
			continue
		}
		st := m[1]
		if i := strings.Index(st, ","); i > 0 {
			st = st[:i]
		}
		switch st {
		case "chan send", "chan receive", "select", "IO wait", "sync.Mutex.Lock", "semacquire", "sync.RWMutex.Lock", "sync.RWMutex.RLock", "sync.WaitGroup.Wait", "sync.Cond.Wait", "select (no cases)", "chan receive (nil chan)", "chan send (nil chan)":
		default:
			return false, d2
		}
	}
	return true, d2
}

var reAddr = regexp.MustCompile(`0x[0-9a-f]+|\+0x[0-9a-f]+|goroutine \d+|\d+ minutes`)

// repoGoroutines returns the stacks of goroutines that have a /repo frame, with addresses removed.
func repoGoroutines() string {
	buf := make([]byte, 1<<20)
	for {
		n := runtime.Stack(buf, true)
		if n < len(buf) {
			buf = buf[:n]
			break
		}
		buf = make([]byte, 2*len(buf))
	}
	var out []string
	for _, blk := range strings.Split(string(buf), "\n\n") {
		if strings.Contains(blk, "github.com/xelaj/mtproto.") || strings.Contains(blk, "github.com/xelaj/mtproto/internal") || strings.Contains(blk, "github.com/xelaj/mtproto/telegram") {
			if strings.Contains(blk, "zverif/wl.repoGoroutines") {
				continue
			}
			hdr := reGoroutineHdr.FindString(blk)
			out = append(out, hdr+"\n"+reAddr.ReplaceAllString(blk[strings.Index(blk, "\n")+1:], ""))
		}
	}
	return strings.Join(out, "\n\n")
}
