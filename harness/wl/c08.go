package wl

import (
	"bytes"
	"context"
	"encoding/binary"
	"errors"
	"fmt"
	"github.com/xelaj/mtproto/internal/mtproto/messages"
	"io"
	"math/rand"
	"net"
	"time"

	"github.com/xelaj/mtproto/internal/mode"
	"github.com/xelaj/mtproto/internal/transport"
	"github.com/xelaj/mtproto/zverif/ref/mtp"
	"github.com/xelaj/mtproto/zverif/wk"
)

func init() {
	wk.Register("c08", c08)
	wk.Register("c08tcp", c08tcp)
}

// segReader returns at most segs[i] bytes per Read call.
type segReader struct {
	data []byte
	segs []int
	i    int
	left int
}

func (s *segReader) Read(p []byte) (int, error) {
	if len(s.data) == 0 {
		return 0, io.EOF
	}
	if s.left == 0 {
		if s.i < len(s.segs) {
			s.left = s.segs[s.i]
			s.i++
		} else {
			s.left = len(s.data)
		}
	}
	n := len(p)
	if n > s.left {
		n = s.left
	}
	if n > len(s.data) {
		n = len(s.data)
	}
	copy(p, s.data[:n])
	s.data = s.data[n:]
	s.left -= n
	return n, nil
}

// exactReader states the contract the framing modes are written against (and that tcpConn implements):
// Read(p) returns only when len(p) bytes have arrived.
type exactReader struct{ r io.Reader }

func (e exactReader) Read(p []byte) (int, error) {
	n, err := io.ReadFull(e.r, p)
	if err == io.ErrUnexpectedEOF && n == 0 {
		err = io.EOF
	}
	return n, err
}

type rwPair struct {
	io.Reader
	io.Writer
}

var c08Modes = []struct {
	name string
	v    mode.Variant
	ann  []byte
}{{"abridged", mode.Abridged, mtp.AnnounceAbridged}, {"intermediate", mode.Intermediate, mtp.AnnounceIntermediate}}

func c08lens(c *wk.Ctx) []int {
	var l []int
	for n := 0; n <= 520; n += 4 {
		l = append(l, n)
	}
	l = append(l, 1020, 1024, 4096, 65536, 1<<20)
	return l
}

func c08(c *wk.Ctx) {
	idx := 0
	// ---- A. writing: wire bytes equal announcement + reference frames
	lens := c08lens(c)
	// written lengths: every multiple of 4 up to 4 KiB (16 KiB thorough) and the neighbourhood of every power
	// of two and of the usual segment sizes — a write path that splits or batches by size has its edge somewhere there
	wlens := append([]int{}, lens...)
	for n := 524; n <= c.Pick(4096, 16384); n += 4 {
		wlens = append(wlens, n)
	}
	for k := 12; k <= 20; k++ {
		for d := -12; d <= 12; d += 4 {
			wlens = append(wlens, 1<<k+d)
		}
	}
	for _, base := range []int{1448, 1460, 1500, 2896, 2920, 8940, 9000, 65508, 65532, 65540} {
		for d := -8; d <= 8; d += 4 {
			wlens = append(wlens, (base+d)/4*4)
		}
	}
	for mi, md := range c08Modes {
		for _, n := range wlens {
			if c.Mine(idx) {
				r := c.Rand(idx)
				c.Begin(idx, fmt.Sprintf("write %s len=%d", md.name, n))
				msgs := [][]byte{rbytes(r, n)}
				for k := r.Intn(4); k > 0; k-- {
					msgs = append(msgs, rbytes(r, lens[r.Intn(len(lens)-2)]))
				}
				c08write(c, idx, mi, msgs)
			}
			idx++
		}
	}
	// around 16 MiB: 2^24 BYTES is nothing special for either format (Abridged counts 4-byte words in its three
	// length bytes and carries up to (2^24-1)*4 bytes, Intermediate has a 4-byte length), which is exactly why a
	// limit placed there is wrong
	big := []int{1<<24 - 4, 1 << 24, 1<<24 + 4}
	if !c.Quick() {
		big = append(big, 1<<25, 1<<26-4)
	}
	for mi, md := range c08Modes {
		for _, n := range big {
			if c.Mine(idx) {
				c.Begin(idx, fmt.Sprintf("write %s len=%d", md.name, n))
				b := make([]byte, n)
				for i := 0; i < n; i += 4093 {
					b[i] = byte(i)
				}
				c08write(c, idx, mi, [][]byte{b, {1, 2, 3, 4}})
			}
			idx++
		}
	}
	// ---- B. reading short streams under EVERY composition
	maxStream := c.Pick(12, 15)
	for mi, md := range c08Modes {
		for _, shape := range [][]int{{0}, {4}, {8}, {0, 0}, {4, 0}, {0, 4}, {4, 4}, {0, 0, 0}, {8, 0}, {0, 8}, {12}, {4, 4, 4}} {
			stream, msgs := c08stream(md.name, shape, nil)
			if len(stream) > maxStream {
				continue
			}
			total := 1 << (len(stream) - 1)
			for comp := 0; comp < total; comp++ {
				if c.Mine(idx) {
					c.Begin(idx, fmt.Sprintf("read %s shape=%v composition=%b", md.name, shape, comp))
					segs := compSegs(len(stream), comp)
					c08read(c, idx, mi, stream, msgs, segs, "all-compositions")
					c.Distinct("comp", md.name, fmt.Sprint(shape), comp)
				}
				idx++
			}
			c.Count("compositions.enumerated", int64(total))
		}
	}
	// ---- C. reading longer streams under random segmentations and 1-byte-at-a-time
	nrand := c.Pick(300, 6000)
	for k := 0; k < nrand; k++ {
		if c.Mine(idx) {
			r := c.Rand(idx)
			mi := r.Intn(2)
			var shape []int
			for j := 1 + r.Intn(6); j > 0; j-- {
				shape = append(shape, lens[r.Intn(len(lens)-4)])
			}
			if r.Intn(20) == 0 {
				shape = append(shape, lens[len(lens)-1-r.Intn(3)])
			}
			stream, msgs := c08stream(c08Modes[mi].name, shape, r)
			var segs []int
			kind := "random"
			switch r.Intn(4) {
			case 0:
				kind = "byte-at-a-time"
				if len(stream) > 70000 {
					kind = "random"
				}
			case 1:
				kind = "whole"
			}
			switch kind {
			case "byte-at-a-time":
				segs = make([]int, len(stream))
				for i := range segs {
					segs[i] = 1
				}
			case "whole":
				segs = []int{len(stream)}
			default:
				for rem := len(stream); rem > 0; {
					s := 1 + r.Intn(1+r.Intn(1+rem))
					if r.Intn(3) == 0 {
						s = 1 + r.Intn(7)
					}
					if s > rem {
						s = rem
					}
					segs = append(segs, s)
					rem -= s
				}
			}
			c.Begin(idx, fmt.Sprintf("read %s shape=%v segs=%s", c08Modes[mi].name, shape, kind))
			c08read(c, idx, mi, stream, msgs, segs, kind)
			c.Distinct("rand", mi, fmt.Sprint(shape), kind, len(segs))
			if k < 3 {
				c.Sample(map[string]interface{}{"mode": c08Modes[mi].name, "message_lengths": shape, "segmentation": kind, "segments": len(segs)})
			}
		}
		idx++
	}
	// ---- C2. frames of several MiB (file parts, big results), then small ones behind them
	bigShapes := [][]int{{4<<20 + 4, 8}, {5 << 20, 0, 4}, {8<<20 - 4, 4}}
	if !c.Quick() {
		bigShapes = append(bigShapes, []int{12<<20 + 8, 4}, []int{16<<20 - 8, 8, 0}, []int{4 << 20, 4<<20 + 4, 4})
	}
	for mi := range c08Modes {
		for si, shape := range bigShapes {
			if c.Mine(idx) {
				r := c.Rand(idx)
				stream, msgs := c08stream(c08Modes[mi].name, shape, r)
				var segs []int
				kind := []string{"whole", "random"}[(mi+si)%2]
				if kind == "whole" {
					segs = []int{len(stream)}
				} else {
					for rem := len(stream); rem > 0; {
						sg := 1 + r.Intn(1<<uint(4+r.Intn(18)))
						if sg > rem {
							sg = rem
						}
						segs = append(segs, sg)
						rem -= sg
					}
				}
				c.Begin(idx, fmt.Sprintf("read big %s shape=%v segs=%s", c08Modes[mi].name, shape, kind))
				c08read(c, idx, mi, stream, msgs, segs, kind)
				c.Distinct("big", mi, fmt.Sprint(shape), kind)
			}
			idx++
		}
	}
	// ---- D. announcements not recognised
	for _, bad := range [][]byte{{0xee}, {0xee, 0xee, 0xee, 0xef}, {0xdd, 0xdd, 0xdd, 0xdd}, {0x00}, {0xee, 0xef, 0xee, 0xee}} {
		if c.Mine(idx) {
			c.Begin(idx, fmt.Sprintf("detect bad %x", bad))
			_, cancel := context.WithCancel(context.Background())
			cr := exactReader{&segReader{data: append(append([]byte{}, bad...), 1, 0, 0, 0, 0), segs: []int{1, 1, 1, 1, 1, 1, 1, 1, 1}}}
			var m mode.Mode
			var err error
			pan, pm, st := wk.Guard(func() { m, err = mode.Detect(rwPair{cr, io.Discard}) })
			if pan {
				c.Viol("C08", idx, "detect/panic/"+st, pm, fmt.Sprintf("%x", bad))
			} else if err == nil && m != nil && !(bad[0] == 0xef) {
				c.Viol("C08", idx, "detect/accepted-bad-announcement", fmt.Sprintf("%x recognised as %T", bad, m), fmt.Sprintf("%x", bad))
			}
			cancel()
			c.Distinct("baddetect", fmt.Sprintf("%x", bad))
		}
		idx++
	}
}

func compSegs(n, comp int) []int {
	var segs []int
	cur := 1
	for i := 0; i < n-1; i++ {
		if comp&(1<<i) != 0 {
			segs = append(segs, cur)
			cur = 1
		} else {
			cur++
		}
	}
	return append(segs, cur)
}

func c08stream(modeName string, shape []int, r *rand.Rand) ([]byte, [][]byte) {
	var stream []byte
	if modeName == "abridged" {
		stream = append(stream, mtp.AnnounceAbridged...)
	} else {
		stream = append(stream, mtp.AnnounceIntermediate...)
	}
	var msgs [][]byte
	for i, n := range shape {
		m := make([]byte, n)
		if r != nil {
			r.Read(m)
		} else {
			for j := range m {
				m[j] = byte(0xA0 + i*16 + j)
			}
		}
		f, err := mtp.Frame(modeName, m)
		if err != nil {
			panic(err)
		}
		stream = append(stream, f...)
		msgs = append(msgs, m)
	}
	return stream, msgs
}

func c08write(c *wk.Ctx, idx, mi int, msgs [][]byte) {
	md := c08Modes[mi]
	var buf bytes.Buffer
	var want []byte
	want = append(want, md.ann...)
	var m mode.Mode
	var err error
	pan, pm, st := wk.Guard(func() { m, err = mode.New(md.v, rwPair{bytes.NewReader(nil), &buf}) })
	if pan || err != nil {
		c.Viol("C08", idx, "write/new-failed", fmt.Sprint(pm, err, st), nil)
		return
	}
	for _, msg := range msgs {
		f, _ := mtp.Frame(md.name, msg)
		want = append(want, f...)
		m0 := append([]byte{}, msg...)
		pan, pm, st = wk.Guard(func() { err = m.WriteMsg(msg) })
		if pan {
			c.Viol("C08", idx, "write/panic/"+st, pm, len(msg))
			return
		}
		if err != nil {
			c.Viol("C08", idx, "write/error/"+md.name, fmt.Sprintf("len %d: %v", len(msg), err), len(msg))
			return
		}
		if !bytes.Equal(msg, m0) {
			c.Viol("C08", idx, "write/modified-input", "", nil)
		}
	}
	if !bytes.Equal(buf.Bytes(), want) {
		got := buf.Bytes()
		first := 0
		for first < len(got) && first < len(want) && got[first] == want[first] {
			first++
		}
		around := ""
		w := len(msgs[0]) / 4
		switch {
		case first < len(md.ann):
			around = "announcement"
		case w >= 126 && w <= 128:
			around = "header-at-127-words"
		default:
			around = "header-or-body"
		}
		c.Viol("C08", idx, "write/wire-mismatch/"+md.name+"/"+around, fmt.Sprintf("first message %d bytes; wire differs from the reference framing at offset %d (got %d bytes, want %d)", len(msgs[0]), first, len(got), len(want)), len(msgs[0]))
	}
	c.Distinct("write", md.name, len(msgs[0]), len(msgs))
}

func c08read(c *wk.Ctx, idx, mi int, stream []byte, msgs [][]byte, segs []int, kind string) {
	md := c08Modes[mi]
	cr := exactReader{&segReader{data: append([]byte{}, stream...), segs: segs}}
	conn := rwPair{cr, io.Discard}
	var m mode.Mode
	var err error
	pan, pm, st := wk.Guard(func() { m, err = mode.Detect(conn) })
	if pan {
		c.Viol("C08", idx, "detect/panic/"+st, pm, nil)
		return
	}
	if err != nil {
		c.Viol("C08", idx, "detect/not-recognised/"+md.name, err.Error(), nil)
		return
	}
	if v, _ := mode.GetVariant(m); v != md.v {
		c.Viol("C08", idx, "detect/wrong-mode/"+md.name, fmt.Sprint(v), nil)
		return
	}
	var held [][]byte
	defer func() {
		for i := range held {
			if i < len(msgs) && !bytes.Equal(held[i], msgs[i]) {
				c.Viol("C08", idx, "read/earlier-message-overwritten/"+md.name, fmt.Sprintf("message %d of %d (len %d) changed after later messages were read (the returned slice aliases an internal buffer)", i, len(msgs), len(msgs[i])), nil)
				return
			}
		}
	}()
	for i, want := range msgs {
		var got []byte
		pan, pm, st = wk.Guard(func() { got, err = m.ReadMsg() })
		if pan {
			c.Viol("C08", idx, "read/panic/"+st, pm, nil)
			return
		}
		if err != nil {
			c.Viol("C08", idx, "read/error/"+md.name+"/"+kind, fmt.Sprintf("message %d of %d (len %d): %v", i, len(msgs), len(want), err), nil)
			return
		}
		if !bytes.Equal(got, want) {
			c.Viol("C08", idx, "read/wrong-message/"+md.name+"/"+kind, fmt.Sprintf("message %d: got %d bytes, want %d", i, len(got), len(want)), nil)
			return
		}
		held = append(held, got)
	}
	var got []byte
	pan, pm, st = wk.Guard(func() { got, err = m.ReadMsg() })
	if pan {
		c.Viol("C08", idx, "read/panic-at-eof/"+st, pm, nil)
		return
	}
	if err == nil {
		c.Viol("C08", idx, "read/eof-as-message/"+md.name, fmt.Sprintf("end of stream returned a %d-byte message", len(got)), nil)
	} else if !errors.Is(err, io.EOF) {
		c.Viol("C08", idx, "read/eof-as-other-error/"+md.name, err.Error(), nil)
	}
}

// ---------------------------------------------------------------------------------------------
// Real loopback TCP through transport.NewTransport (the client's own socket reader).

func c08tcp(c *wk.Ctx) {
	idx := 0
	n := c.Pick(64, 1500)
	for k := 0; k < n; k++ {
		if c.Mine(idx) {
			r := c.Rand(idx)
			c.Begin(idx, fmt.Sprintf("tcp case %d", k))
			c08tcpCase(c, idx, r, k)
		}
		idx++
	}
}

type c08item struct {
	body  []byte // plain-envelope body, or nil for an error code
	code  int32
	msgID int64
}

// c08tcpClose: the client writes several messages and closes the connection at once; the peer is slow and starts to
// read only later. What was written before the close reaches the peer, followed by end-of-stream (not a reset).
func c08tcpClose(c *wk.Ctx, idx int, r *rand.Rand) {
	ln, err := net.Listen("tcp", "127.0.0.1:0")
	if err != nil {
		c.Log.Emit(coreInconclusive("listen: " + err.Error()))
		return
	}
	defer ln.Close()
	sizes := []int{256 << 10, 4, 64 << 10, 1 << 20}[:2+r.Intn(3)]
	type got struct {
		frames [][]byte
		err    error
	}
	done := make(chan got, 1)
	go func() {
		conn, err := ln.Accept()
		if err != nil {
			done <- got{err: err}
			return
		}
		defer conn.Close()
		time.Sleep(300 * time.Millisecond) // a busy peer: it gets to this connection later
		var g got
		ann := make([]byte, 4)
		if _, err := io.ReadFull(conn, ann); err != nil {
			done <- got{err: fmt.Errorf("announcement: %v", err)}
			return
		}
		for {
			var l [4]byte
			if _, err := io.ReadFull(conn, l[:]); err != nil {
				g.err = err
				break
			}
			b := make([]byte, binary.LittleEndian.Uint32(l[:]))
			if _, err := io.ReadFull(conn, b); err != nil {
				g.err = err
				break
			}
			g.frames = append(g.frames, b)
		}
		done <- g
	}()
	ctx, cancel := context.WithCancel(context.Background())
	defer cancel()
	var tr transport.Transport
	pan, pm, st := wk.Guard(func() {
		tr, err = transport.NewTransport(&stubInfo{key: make([]byte, 256)}, transport.TCPConnConfig{Ctx: ctx, Host: ln.Addr().String(), Timeout: 20 * time.Second}, mode.Intermediate)
	})
	if pan || err != nil {
		c.Viol("C08", idx, "tcp/connect", fmt.Sprint(pm, err, st), nil)
		return
	}
	var bodies [][]byte
	for i, n := range sizes {
		body := rbytes(r, n)
		bodies = append(bodies, body)
		var werr error
		pan, pm, st = wk.Guard(func() { werr = tr.WriteMsg(&messages.Unencrypted{Msg: body, MsgID: int64(4 * (i + 1))}, false) })
		if pan || werr != nil {
			c.Viol("C08", idx, "tcp/write-failed", fmt.Sprint(pm, werr, st), n)
			return
		}
	}
	wk.Guard(func() { tr.Close() })
	var g got
	select {
	case g = <-done:
	case <-time.After(30 * time.Second):
		c.Log.Emit(coreInconclusive("tcp close: the peer did not finish within the watchdog"))
		return
	}
	c.Count("tcp.close_after_write_cases", 1)
	if len(g.frames) != len(bodies) {
		c.Viol("C08", idx, "tcp/written-before-close-lost", fmt.Sprintf("%d messages were written (WriteMsg returned nil for each) and the connection closed; the peer, reading 300 ms later, received %d of them and then %v", len(bodies), len(g.frames), g.err), sizes)
		return
	}
	for i := range bodies {
		if _, b, err := mtp.OpenPlain(g.frames[i]); err != nil || !bytes.Equal(b, bodies[i]) {
			c.Viol("C08", idx, "tcp/written-before-close-differs", fmt.Sprintf("message %d of %d bytes", i, len(bodies[i])), nil)
			return
		}
	}
	if g.err != io.EOF {
		c.Viol("C08", idx, "tcp/close-not-end-of-stream", fmt.Sprintf("after an orderly Close the peer sees %v instead of the end of the stream", g.err), nil)
	}
	c.Distinct("tcpclose", len(sizes), idx)
}

func c08tcpCase(c *wk.Ctx, idx int, r *rand.Rand, k int) {
	if k%16 == 5 {
		c08tcpClose(c, idx, r)
		return
	}
	ln, err := net.Listen("tcp", "127.0.0.1:0")
	if err != nil {
		c.Log.Emit(coreInconclusive("listen: " + err.Error()))
		return
	}
	defer ln.Close()
	// items: plain-envelope messages with server parity and 4-byte transport error codes
	var items []c08item
	codes := []int32{-404, -429, -444, -1, -2147483648, 404, 1, 2147483647}
	for j := 1 + r.Intn(5); j > 0; j-- {
		if r.Intn(3) == 0 {
			items = append(items, c08item{code: codes[r.Intn(len(codes))]})
		} else {
			bl := []int{0, 4, 8, 100, 484, 488, 492, 496, 500, 1000, 4096, 65536}[r.Intn(12)]
			items = append(items, c08item{body: rbytes(r, bl), msgID: (pick64(r) &^ 3) | 1})
		}
	}
	if k < 8 {
		items[0] = c08item{code: codes[k]}
	}
	// stretched in time: the peer falls silent between frames, each time for less than the read timeout (and the
	// silences add up to more than it). Margins are wide (>= 1.1 s below the timeout) so that load cannot fake a verdict.
	timeout := 20 * time.Second
	pauseBefore := map[int]time.Duration{}
	if k%16 == 9 {
		timeout = 4 * time.Second
		items = []c08item{{body: rbytes(r, 8), msgID: 5}, {body: rbytes(r, 40), msgID: 9}, {body: rbytes(r, 4), msgID: 13}}
	}
	paused := k%16 == 9
	var frameLens []int
	var stream []byte
	for _, it := range items {
		var payload []byte
		if it.body == nil {
			payload = make([]byte, 4)
			binary.LittleEndian.PutUint32(payload, uint32(it.code))
		} else {
			payload = mtp.SealPlain(it.msgID, it.body)
		}
		f, _ := mtp.Frame("intermediate", payload)
		stream = append(stream, f...)
		frameLens = append(frameLens, len(f))
	}
	// segmentation
	var segs []int
	kind := []string{"byte", "small", "random", "whole"}[r.Intn(4)]
	if len(stream) > 3000 && kind == "byte" {
		kind = "small"
	}
	for rem := len(stream); rem > 0; {
		s := rem
		switch kind {
		case "byte":
			s = 1
		case "small":
			s = 1 + r.Intn(9)
			if len(stream) > 3000 && r.Intn(3) != 0 {
				s = 1 + r.Intn(2000)
			}
		case "random":
			s = 1 + r.Intn(rem)
		}
		if s > rem {
			s = rem
		}
		segs = append(segs, s)
		rem -= s
	}
	if paused {
		kind, segs = "paused", frameLens
		pauseBefore[1], pauseBefore[2] = 1500*time.Millisecond, 2900*time.Millisecond
	}
	srvErr := make(chan error, 1)
	gotAnn := make(chan []byte, 1)
	go func() {
		conn, err := ln.Accept()
		if err != nil {
			srvErr <- err
			return
		}
		defer conn.Close()
		conn.(*net.TCPConn).SetNoDelay(true)
		ann := make([]byte, 4)
		if _, err := io.ReadFull(conn, ann); err != nil {
			srvErr <- err
			return
		}
		gotAnn <- ann
		off := 0
		for si, s := range segs {
			if d := pauseBefore[si]; d > 0 {
				time.Sleep(d)
			}
			if _, err := conn.Write(stream[off : off+s]); err != nil {
				srvErr <- err
				return
			}
			off += s
			if len(segs) < 4000 {
				time.Sleep(150 * time.Microsecond)
			}
		}
		srvErr <- nil
	}()
	ctx, cancel := context.WithCancel(context.Background())
	defer cancel()
	var tr transport.Transport
	pan, pm, st := wk.Guard(func() {
		tr, err = transport.NewTransport(&stubInfo{key: make([]byte, 256)}, transport.TCPConnConfig{Ctx: ctx, Host: ln.Addr().String(), Timeout: timeout}, mode.Intermediate)
	})
	if pan || err != nil {
		c.Viol("C08", idx, "tcp/connect", fmt.Sprint(pm, err, st), nil)
		return
	}
	defer tr.Close()
	peerDone := false
	var ann []byte
	select {
	case ann = <-gotAnn:
	case e := <-srvErr:
		// the peer reports only after it has handed over the announcement, so a nil report means it is simply done already
		if e != nil {
			c.Viol("C08", idx, "tcp/no-announcement", fmt.Sprint(e), nil)
			return
		}
		peerDone = true
		ann = <-gotAnn
	case <-time.After(20 * time.Second):
		c.Log.Emit(coreInconclusive("tcp: announcement not seen within the watchdog"))
		return
	}
	if !bytes.Equal(ann, mtp.AnnounceIntermediate) {
		c.Viol("C08", idx, "tcp/announcement", fmt.Sprintf("%x", ann), nil)
	}
	for i, it := range items {
		var err error
		var gotID int64
		var gotBody []byte
		pan, pm, st := wk.Guard(func() {
			m, e := tr.ReadMsg()
			err = e
			if e == nil {
				gotID, gotBody = int64(m.GetMsgID()), m.GetMsg()
			}
		})
		if pan {
			c.Viol("C08", idx, "tcp/panic/"+st, pm, nil)
			return
		}
		if it.body == nil {
			var ec transport.ErrCode
			if !errors.As(err, &ec) {
				c.Viol("C08", idx, "tcp/code-not-surfaced", fmt.Sprintf("item %d: 4-byte frame %d gave %v", i, it.code, err), it.code)
				return
			}
			if int(ec) != int(it.code) {
				c.Viol("C08", idx, fmt.Sprintf("tcp/code-sign/negative=%v", it.code < 0), fmt.Sprintf("4-byte frame carrying %d surfaced as %d", it.code, int(ec)), it.code)
			}
			c.Distinct("tcpcode", it.code, kind)
			continue
		}
		if err != nil {
			c.Viol("C08", idx, "tcp/read-error/"+kind, fmt.Sprintf("item %d (body %d bytes): %v", i, len(it.body), err), nil)
			return
		}
		if gotID != it.msgID || !bytes.Equal(gotBody, it.body) {
			c.Viol("C08", idx, "tcp/wrong-message/"+kind, fmt.Sprintf("item %d", i), nil)
			return
		}
		c.Distinct("tcpmsg", len(it.body), kind, len(segs))
	}
	if !peerDone {
		if e := <-srvErr; e != nil {
			c.Log.Emit(coreInconclusive("tcp peer: " + e.Error()))
			return
		}
	}
	// orderly close → end of stream
	var err2 error
	pan, pm, st = wk.Guard(func() { _, err2 = tr.ReadMsg() })
	if pan {
		c.Viol("C08", idx, "tcp/panic-at-eof/"+st, pm, nil)
	} else if err2 == nil {
		c.Viol("C08", idx, "tcp/eof-as-message", "", nil)
	} else if !errors.Is(err2, io.EOF) {
		c.Viol("C08", idx, "tcp/eof-as-other-error", err2.Error(), nil)
	}
	c.Count("tcp.segments_written", int64(len(segs)))
	if k < 2 {
		c.Sample(map[string]interface{}{"path": "loopback tcp", "items": len(items), "segmentation": kind, "segments": len(segs), "stream_bytes": len(stream)})
	}
}
