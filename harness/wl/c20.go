package wl

import (
	"fmt"
	"math/rand"
	"reflect"
	"strings"

	"github.com/xelaj/mtproto/telegram/deeplinks"
	"github.com/xelaj/mtproto/zverif/ref/link"
	"github.com/xelaj/mtproto/zverif/wk"
)

func init() { wk.Register("c20", c20) }

var c20Schemes = []string{"", "http://", "https://", "tg://", "ftp://", "//"}
var c20Hosts = append(append([]string{}, link.Reserved...),
	"t.me.evil.com", "xt.me", "T.ME", "tele\u017fco.pe", "telegram.\u017fe", "teleſco.pe", "t.me\u212a", "Telegram.Me", "tеlegram.me" /* cyrillic e */, "example.com", "t.m", "me", "telegram.org", "")
var c20Ports = []string{"", ":443", ":80", ":8443", ":1", ":65535"}
var c20Suffix = []string{"", "?a=b", "#frag", "?start=1#frag", "?domain=evilname", "?invite=eviltoken", "?Domain=evil1&domain=evil2&username=evil3", "?a=b&invite=x#domain=y"}

var c20Atoms = []link.Seg{
	{Raw: "BotFather", Dec: "BotFather"}, {Raw: "user_1", Dec: "user_1"}, {Raw: "joinchat", Dec: "joinchat"},
	{Raw: "AAAAAE9tok3n", Dec: "AAAAAE9tok3n"}, {Raw: "%41bc", Dec: "Abc"}, {Raw: "a%20b", Dec: "a b"},
	{Raw: "Ünï", Dec: "Ünï"}, {Raw: "ЖУК", Dec: "ЖУК"}, {Raw: "", Dec: ""}, {Raw: "a%2Fb", Dec: "a/b", Odd: true},
	{Raw: "%zz", Dec: "", Odd: true}, {Raw: "x", Dec: "x"}, {Raw: "JOINCHAT", Dec: "JOINCHAT"}, {Raw: "%", Dec: "", Odd: true},
	{Raw: "a:b", Dec: "a:b", Odd: true}, {Raw: "..", Dec: "..", Odd: true}, {Raw: "a;b", Dec: "a;b", Odd: true},
	// characters that mean something in OTHER parts of a URL or in other encodings of it, but are themselves in a path;
	// escapes of the escape character (decoded once, like every other escape)
	{Raw: "AAAA+BBBB", Dec: "AAAA+BBBB"}, {Raw: "C++", Dec: "C++"}, {Raw: "a%2Bb", Dec: "a+b"}, {Raw: "100%2525", Dec: "100%25"},
	{Raw: "a%252Fb", Dec: "a%2Fb"}, {Raw: "%2541", Dec: "%41"}, {Raw: "a-b.c~d", Dec: "a-b.c~d"}, {Raw: "a=b&c", Dec: "a=b&c"}, {Raw: "a@b", Dec: "a@b"},
	{Raw: "a!b*c'd(e)", Dec: "a!b*c'd(e)"}, {Raw: "a,b$c", Dec: "a,b$c"}, {Raw: "%2B%2B", Dec: "++"},
}

func c20Paths() [][]link.Seg {
	var out [][]link.Seg
	out = append(out, nil)
	for _, a := range c20Atoms {
		out = append(out, []link.Seg{a})
	}
	for _, a := range c20Atoms[:9] {
		for _, b := range c20Atoms[:12] {
			out = append(out, []link.Seg{a, b})
		}
	}
	for _, b := range c20Atoms[17:] {
		out = append(out, []link.Seg{c20Atoms[2], b}, []link.Seg{c20Atoms[0], b}) // joinchat/<token>, user/<x>
	}
	for _, a := range []int{0, 2, 8} {
		for _, b := range []int{0, 2, 3, 8} {
			for _, c := range []int{0, 3, 8} {
				out = append(out, []link.Seg{c20Atoms[a], c20Atoms[b], c20Atoms[c]})
			}
		}
	}
	return out
}

func c20Classify(d deeplinks.Deeplink, err error) (link.Kind, string) {
	if err != nil {
		return link.Error, ""
	}
	switch v := d.(type) {
	case *deeplinks.ResolveParameters:
		if v.Start != "" || v.Post != 0 || v.Thread != 0 || v.Comment != 0 {
			return link.DontCare, "extra"
		}
		return link.User, v.Domain
	case *deeplinks.JoinParameters:
		return link.Join, v.Invite
	default:
		return link.DontCare, fmt.Sprintf("%T", d)
	}
}

func c20One(c *wk.Ctx, idx int, s string, structured bool, p link.Parts) {
	c.Begin(idx, s)
	type res struct {
		k link.Kind
		v string
		e string
	}
	var first res
	for rep := 0; rep < 5; rep++ {
		var d deeplinks.Deeplink
		var err error
		pan, msg, st := wk.Guard(func() { d, err = deeplinks.Resolve(s) })
		if pan {
			c.Viol("C20", idx, "panic/"+st, "Resolve("+fmt.Sprintf("%q", s)+") panicked: "+msg, s)
			return
		}
		k, v := c20Classify(d, err)
		r := res{k, v, ""}
		if rep == 0 {
			first = r
		} else if !reflect.DeepEqual(r, first) {
			c.Viol("C20", idx, "nondeterministic", fmt.Sprintf("Resolve(%q) gave %v/%q then %v/%q", s, first.k, first.v, r.k, r.v), s)
			return
		}
	}
	if !structured {
		return
	}
	wantK, wantV := link.Expect(p)
	c.Count("class."+wantK.String(), 1)
	if wantK == link.DontCare {
		return
	}
	c.Distinct(p.Scheme, p.Host, p.Port, len(p.Segs), wantK, p.Trailing, p.Suffix != "", wk.Short(s, 40))
	ok := first.k == wantK
	if ok && wantK == link.User {
		ok = link.UserMatches(first.v, wantV)
	}
	if ok && wantK == link.Join {
		ok = first.v == wantV
	}
	if !ok {
		hostClass := "foreign"
		if wantK != link.Error || contains(link.Reserved, p.Host) {
			hostClass = "reserved"
		}
		sig := fmt.Sprintf("wrong/want-%s-got-%s/scheme=%q/host=%s/segs=%d", wantK, first.k, p.Scheme, hostClass, len(p.Segs))
		c.Viol("C20", idx, sig, fmt.Sprintf("Resolve(%q): want %s %q, got %s %q", s, wantK, wantV, first.k, first.v), s)
	}
}

func contains(l []string, s string) bool {
	for _, x := range l {
		if x == s {
			return true
		}
	}
	return false
}

func c20(c *wk.Ctx) {
	idx := 0
	paths := c20Paths()
	// 1. the full structured grid
	for _, sc := range c20Schemes {
		for _, h := range c20Hosts {
			for _, po := range c20Ports {
				for _, pa := range paths {
					for _, tr := range []bool{false, true} {
						for _, su := range c20Suffix {
							if c.Mine(idx) {
								p := link.Parts{Scheme: sc, Host: h, Port: po, Segs: pa, Trailing: tr, Suffix: su}
								s := p.String()
								if idx%997 == 0 {
									c.Sample(map[string]string{"link": s, "expect": fmt.Sprint(link.Expect(p))})
								}
								c20One(c, idx, s, true, p)
							}
							idx++
						}
					}
				}
			}
		}
	}
	c.Count("grid", int64(idx))
	// 2. random structured links with random usernames/tokens
	n := c.Pick(20000, 3000000)
	for k := 0; k < n; k++ {
		if c.Mine(idx) {
			r := c.Rand(idx)
			p := link.Parts{Scheme: c20Schemes[r.Intn(len(c20Schemes))], Host: c20Hosts[r.Intn(len(c20Hosts))], Port: c20Ports[r.Intn(len(c20Ports))],
				Suffix: c20Suffix[r.Intn(len(c20Suffix))], Trailing: r.Intn(6) == 0}
			if r.Intn(2) == 0 {
				p.Host = link.Reserved[r.Intn(len(link.Reserved))]
			}
			ns := r.Intn(4)
			for j := 0; j < ns; j++ {
				if r.Intn(5) == 0 {
					p.Segs = append(p.Segs, c20Atoms[r.Intn(len(c20Atoms))])
				} else {
					w := randWord(r)
					p.Segs = append(p.Segs, link.Seg{Raw: w, Dec: w})
				}
			}
			c20One(c, idx, p.String(), true, p)
		}
		idx++
	}
	// 2b. several goroutines resolving at once; the expectation for each link is the sequential, already judged answer
	for k := 0; k < c.Pick(4, 40); k++ {
		if c.Mine(idx) {
			c.Begin(idx, fmt.Sprintf("concurrent %d", k))
			r := c.Rand(idx)
			var links []string
			for j := 0; j < 300; j++ {
				p := link.Parts{Scheme: c20Schemes[r.Intn(len(c20Schemes))], Host: c20Hosts[r.Intn(len(c20Hosts))], Port: c20Ports[r.Intn(len(c20Ports))], Suffix: c20Suffix[r.Intn(len(c20Suffix))]}
				if r.Intn(2) == 0 {
					p.Host = link.Reserved[r.Intn(len(link.Reserved))]
				}
				p.Segs = paths[r.Intn(len(paths))]
				links = append(links, p.String())
			}
			type ans struct {
				k link.Kind
				v string
			}
			ask := func(s string) (a ans) {
				defer func() {
					if recover() != nil {
						a = ans{link.DontCare, "<panic>"}
					}
				}()
				d, err := deeplinks.Resolve(s)
				kk, v := c20Classify(d, err)
				return ans{kk, v}
			}
			want := make([]ans, len(links))
			for i, s := range links {
				want[i] = ask(s)
			}
			res := concurrently(8, int64(idx), func(g int, rr *rand.Rand) string {
				for round := 0; round < 3; round++ {
					for _, i := range rr.Perm(len(links)) {
						if got := ask(links[i]); got != want[i] {
							return fmt.Sprintf("answer-depends-on-history: Resolve(%q) gave %v/%q alone and %v/%q among 8 goroutines", links[i], want[i].k, want[i].v, got.k, got.v)
						}
					}
				}
				return ""
			})
			c.Count("evaluations", 8*3*300)
			for _, m := range res {
				if m != "" {
					c.Viol("C20", idx, "concurrent/"+strings.SplitN(m, ":", 2)[0], m, nil)
				}
			}
			c.Distinct("concurrent", k)
		}
		idx++
	}
	// 3. random strings (no-panic + determinism only)
	n = c.Pick(10000, 2000000)
	alphabet := []string{"t.me", "telegram.me", "/", "//", ":", "?", "#", "%", "%2F", "http", "https", "tg", "@", "[", "]", "joinchat", "a", "Z", "é", " ", "\x00", ".", "443", "&", "=", "\\", "{", "}", "\n"}
	for k := 0; k < n; k++ {
		if c.Mine(idx) {
			r := c.Rand(idx)
			s := ""
			for j, m := 0, r.Intn(8); j < m; j++ {
				s += alphabet[r.Intn(len(alphabet))]
			}
			c.Count("class.random", 1)
			c20One(c, idx, s, false, link.Parts{})
		}
		idx++
	}
}

func randWord(r *rand.Rand) string {
	const al = "abcdefghijklmnopqrstuvwxyzABCDEFGHIJKLMNOPQRSTUVWXYZ0123456789_"
	n := 1 + r.Intn(12)
	b := make([]byte, n)
	for i := range b {
		b[i] = al[r.Intn(len(al))]
	}
	return string(b)
}
