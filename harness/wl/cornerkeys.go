package wl

import (
	"crypto/sha1"
	"crypto/sha256"
	"encoding/binary"
	"fmt"
)

// Corner auth keys: 256-byte keys whose key id (SHA1(key)[12:20]) is 00000000xxxxxxxx resp. xxxxxxxx00000000.
// A receiver that tells encrypted from plain packets by looking at part of the key id, or that treats a key id as
// a number, meets its corner here. Found by cmd/keysearch (2^32 SHA-1 each); derivable and checked at start-up.
var cornerKeyCounters = map[string]uint64{"head": 2234844232, "tail": 3458814147}

func cornerKey(kind string) []byte {
	var key []byte
	for i := 0; len(key) < 248; i++ {
		h := sha256.Sum256([]byte(fmt.Sprintf("verif-corner-key-%s/%d", kind, i)))
		key = append(key, h[:]...)
	}
	key = key[:248]
	var ctr [8]byte
	binary.BigEndian.PutUint64(ctr[:], cornerKeyCounters[kind])
	key = append(key, ctr[:]...)
	h := sha1.Sum(key)
	id := h[12:20]
	z := id[:4]
	if kind == "tail" {
		z = id[4:]
	}
	if z[0]|z[1]|z[2]|z[3] != 0 {
		panic("corner key " + kind + " does not have the key id it was searched for")
	}
	return key
}
