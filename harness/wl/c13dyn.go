package wl

import (
	"fmt"
	"go/ast"
	"go/parser"
	"go/token"
	"math/rand"
	"reflect"
	"sort"
	"strings"
	"sync"
	"time"

	"github.com/xelaj/mtproto/telegram"
	"github.com/xelaj/mtproto/zverif/bridge"
	"github.com/xelaj/mtproto/zverif/gen"
	"github.com/xelaj/mtproto/zverif/ref/mtp"
	ts "github.com/xelaj/mtproto/zverif/ref/tlschema"
	"github.com/xelaj/mtproto/zverif/refserver"
	"github.com/xelaj/mtproto/zverif/wk"
)

func init() { wk.Register("c13dyn", c13dyn) }

// generatedMethods lists the methods of *telegram.Client declared in telegram/methods_gen.go (source scan:
// embedded MTProto methods and hand-written helpers are not generated methods).
func generatedMethods() ([]string, error) {
	fs := token.NewFileSet()
	f, err := parser.ParseFile(fs, "/repo/telegram/methods_gen.go", nil, 0)
	if err != nil {
		return nil, err
	}
	var out []string
	for _, d := range f.Decls {
		fd, ok := d.(*ast.FuncDecl)
		if !ok || fd.Recv == nil || len(fd.Recv.List) != 1 {
			continue
		}
		if st, ok := fd.Recv.List[0].Type.(*ast.StarExpr); ok {
			if id, ok := st.X.(*ast.Ident); ok && id.Name == "Client" && fd.Name.IsExported() {
				out = append(out, fd.Name.Name)
			}
		}
	}
	sort.Strings(out)
	return out, nil
}

type c13expect struct {
	mu     sync.Mutex
	args   []reflect.Value
	result *ts.Value
	resTyp *ts.TypeExpr
	seenID uint32
	rep    int
	fn     *ts.Def
	argErr string
}

func c13dyn(c *wk.Ctx) {
	if err := loadSchemas(); err != nil {
		c.Log.Emit(coreInconclusive(err.Error()))
		return
	}
	methods, err := generatedMethods()
	if err != nil || len(methods) < 100 {
		c.Log.Emit(coreInconclusive(fmt.Sprint("c13dyn: cannot list generated methods: ", err, len(methods))))
		return
	}
	c.Count("dyn.generated_methods", int64(len(methods)))
	// the hand-written generic wrappers are client methods too (telegram/methods_special.go)
	wrappers := []string{"InitConnection", "InvokeWithLayer", "InvokeWithTakeout", "InvokeAfterMsg", "InvokeAfterMsgs", "InvokeWithoutUpdates", "InvokeWithMessagesRange"}
	isWrapper := map[string]bool{}
	for _, w := range wrappers {
		isWrapper[w] = true
		methods = append(methods, w)
	}
	reps := c.Pick(1, 10)
	exp := &c13expect{}
	costs := allSchema.ComputeCosts()
	r0 := c.Rand(0)
	e, err := newRPCEnv(c, 0, r0, envOpts{Any: func(e *rpcEnv, cn *refserver.Conn, in *mtp.Inner) bool {
		if refserver.ParseMsgsAck(in.Body) != nil {
			return false
		}
		// decode the request with the SCHEMA decoder; the constructor id identifies the schema function
		rd := &ts.Reader{B: in.Body}
		v, derr := allSchema.ReadBoxed(rd)
		exp.mu.Lock()
		defer exp.mu.Unlock()
		exp.seenID = u32le0(in.Body)
		exp.argErr = ""
		if derr != nil || rd.Pos != len(in.Body) {
			exp.argErr = fmt.Sprintf("request not decodable by the schema: %v (pos %d of %d)", derr, rd.Pos, len(in.Body))
			exp.fn = nil
		} else {
			exp.fn = v.Def
			exp.argErr = c13matchArgs(v, exp.args)
		}
		// answer with a schema-generated value of the declared result type
		var body []byte
		if exp.fn != nil && exp.fn.IsFunc {
			rt := exp.fn.Result
			if len(exp.fn.Generics) > 0 {
				// generic wrapper: the result is the result of the wrapped query (its last parameter)
				q := v.Fields[len(v.Fields)-1]
				for q.Kind == ts.KCon && q.Def != nil && len(q.Def.Generics) > 0 {
					q = q.Fields[len(q.Fields)-1]
				}
				if q.Kind == ts.KCon && q.Def != nil && q.Def.IsFunc {
					rt = q.Def.Result
				}
			}
			o := &ts.GenOpts{R: rand.New(rand.NewSource(int64(exp.seenID) + int64(len(in.Body)))), MaxDepth: 2, Costs: costs, ForceStrLen: -1, Simple: true}
			exp.result = allSchema.GenType(rt, o)
			// walk through the constructors of a boxed result type: repetition k answers with constructor k (mod n)
			if cs := allSchema.ByResult[rt.Name]; !rt.Vector && !rt.Bare && len(cs) > 1 {
				exp.result = allSchema.Gen(cs[exp.rep%len(cs)], o, 1)
			}
			exp.resTyp = rt
			body, _ = ts.SerializeAs(exp.result, rt)
		}
		if body == nil {
			body = refserver.RPCError(400, "HARNESS_CANNOT_ANSWER")
		}
		key, _ := cn.KeySession()
		s, _ := e.srv.Salt(key)
		cn.SendEncrypted(refserver.Out{MsgID: e.srv.NextMsgID(1), SeqNo: cn.NextSeq(true), Body: refserver.RPCResult(in.MsgID, body)}, s, "rpc_result", nil)
		return true
	}})
	if err != nil {
		c.Viol("C13", 0, "dyn/setup", err.Error(), nil)
		return
	}
	defer e.close()
	u := universe()
	fnCount := map[uint32][]string{}
	idx := 0
	cv := reflect.ValueOf(e.tc)
	resultCons := func(name string) int {
		// number of constructors of the method's declared result type (found through a dry lookup by Go name is not
		// possible without re-implementing name mangling, so the count is learnt from the first call's function)
		return 0
	}
	_ = resultCons
	for _, name := range methods {
		nrep := reps
		for rep := 0; rep < nrep; rep++ {
			if c.Mine(idx) {
				c.Begin(idx, "method "+name)
				r := c.Rand(idx)
				mv := cv.MethodByName(name)
				if !mv.IsValid() {
					c.Viol("C13", idx, "dyn/method-missing/"+name, "declared in methods_gen.go but not in the method set", name)
					idx++
					continue
				}
				mt := mv.Type()
				g := &gen.G{U: u, R: r, MaxDepth: 2, ForceStrLen: -1, ImplPick: -1, Simple: true}
				var args []reflect.Value
				genOK := true
				for i := 0; i < mt.NumIn(); i++ {
					at := mt.In(i)
					var av reflect.Value
					if isWrapper[name] && at == gen.TObject {
						// the wrapped query: a real function with simple arguments
						// object-returning queries only: the wrappers' signature returns tl.Object and takes no decoder hints, so
						// Bool and vector results are outside what these methods can express (the statement only demands that
						// the wrappers carry their schema ids and layouts)
						queries := []interface{}{&telegram.HelpGetConfigParams{}, &telegram.MessagesGetDhConfigParams{Version: int32(r.Intn(1000)), RandomLength: 8}, &telegram.HelpGetNearestDcParams{}, &telegram.UpdatesGetStateParams{}}
						q := reflect.New(at).Elem()
						q.Set(reflect.ValueOf(queries[r.Intn(len(queries))]))
						args = append(args, q)
						continue
					}
					if isWrapper[name] && at.Kind() == reflect.Int {
						args = append(args, reflect.ValueOf(int(r.Int31n(1<<30))))
						continue
					}
					if pan, pm, _ := wk.Guard(func() {
						if at.Kind() == reflect.Ptr && at.Elem().Kind() == reflect.Struct && strings.HasSuffix(at.Elem().Name(), "Params") {
							av = g.Object(at, nil, 0)
						} else {
							av = g.Value(at, 1, true)
						}
					}); pan {
						c.Log.Emit(coreInconclusive("c13dyn: cannot generate argument for " + name + ": " + pm))
						genOK = false
						break
					}
					if av.Kind() == reflect.Bool {
						// position i is true in repetition r iff bit r of (i+1) is set: any two positions differ in some repetition
						av = reflect.ValueOf(((i+1)>>uint(rep%3))&1 == 1).Convert(at)
					}
					args = append(args, av)
				}
				nb := 0
				for _, a := range args {
					if a.Kind() == reflect.Bool {
						nb++
					}
				}
				if nb >= 2 && nrep < 3 {
					nrep = 3
				}
				if !genOK {
					idx++
					continue
				}
				if name == "InitConnection" && len(args) == 1 {
					// the wrapped query must be an object-returning function (see the note on wrappers above)
					if p, ok := args[0].Interface().(*telegram.InitConnectionParams); ok {
						p.Query = &telegram.HelpGetConfigParams{}
					}
				}
				exp.mu.Lock()
				exp.args = args
				exp.rep = rep
				exp.fn, exp.result, exp.seenID, exp.argErr = nil, nil, 0, ""
				exp.mu.Unlock()
				var outs []reflect.Value
				var pan bool
				var pm, st string
				done := withTimeout(20*time.Second, func() { pan, pm, st = wk.Guard(func() { outs = mv.Call(args) }) })
				exp.mu.Lock()
				fn, result, seen, argErr := exp.fn, exp.result, exp.seenID, exp.argErr
				exp.mu.Unlock()
				switch {
				case !done:
					c.Log.Emit(coreInconclusive("c13dyn: " + name + " did not return within the watchdog"))
				case pan:
					c.Viol("C13", idx, "dyn/panic/"+name, fmt.Sprintf("method %s panicked: %s [%s]", name, wk.Short(pm, 300), st), name)
				case fn == nil:
					c.Viol("C13", idx, "dyn/request-not-a-schema-function/"+name, fmt.Sprintf("method %s sent constructor %#08x: %s", name, seen, argErr), name)
				default:
					if !fn.IsFunc {
						c.Viol("C13", idx, "dyn/request-is-not-a-function/"+name, fmt.Sprintf("method %s sent %s#%08x, which is a constructor, not a function", name, fn.Name, fn.ID), name)
					}
					if rep == 0 {
						fnCount[fn.ID] = append(fnCount[fn.ID], name)
						// every constructor of the declared result type gets its turn (at most 8 in quick)
						if cs := allSchema.ByResult[fn.Result.Name]; !fn.Result.Vector && len(cs) > nrep {
							nrep = len(cs)
							if c.Quick() && nrep > 8 {
								nrep = 8
							}
						}
					}
					if result != nil && result.Kind == ts.KCon {
						c.Count("dyn.answers_by_constructor", 1)
						c.Distinct("answer", name, result.Def.Name)
					}
					if argErr != "" {
						c.Viol("C13", idx, "dyn/arguments/"+name, fmt.Sprintf("method %s -> %s: %s", name, fn.Name, argErr), name)
					}
					if len(outs) != 2 {
						c.Viol("C13", idx, "dyn/signature/"+name, "method does not return (result, error)", name)
					} else if !outs[1].IsNil() {
						c.Viol("C13", idx, "dyn/returned-error/"+name, fmt.Sprintf("method %s -> %s returned error %v for a well-formed answer of type %s", name, fn.Name, outs[1].Interface(), fn.Result), name)
					} else if result != nil {
						if merr := bridge.Match(outs[0], result); merr != nil {
							c.Viol("C13", idx, "dyn/result/"+name, fmt.Sprintf("method %s -> %s: returned value does not match the answer the server sent (%s): %v", name, fn.Name, fn.Result, merr), name)
						}
					}
					c.Distinct("method", name, rep)
					if idx%60 == 0 {
						c.Sample(map[string]interface{}{"method": name, "function": fn.Line, "args": len(args)})
					}
				}
			}
			idx++
		}
	}
	// each schema function id is produced by exactly one generated method
	if c.NShards == 1 && c.Only < 0 {
		nfun := 0
		for _, d := range apiSchema.Defs {
			if !d.IsFunc {
				continue
			}
			nfun++
			switch ms := fnCount[d.ID]; len(ms) {
			case 1:
			case 0:
				c.Viol("C13", idx, "dyn/function-without-method/"+d.Name, fmt.Sprintf("no generated method produces %s#%08x", d.Name, d.ID), d.Line)
			default:
				c.Viol("C13", idx, "dyn/function-with-several-methods/"+d.Name, fmt.Sprintf("%v all produce %s#%08x", ms, d.Name, d.ID), d.Line)
			}
		}
		c.Count("dyn.schema_functions", int64(nfun))
		c.Count("dyn.distinct_function_ids_observed", int64(len(fnCount)))
	}
}

// c13matchArgs compares the decoded request with the Go arguments positionally.
func c13matchArgs(v *ts.Value, args []reflect.Value) string {
	nf := v.Def.NonFlagParams()
	var slots []reflect.Value
	if len(args) == 1 && args[0].Kind() == reflect.Ptr && args[0].Elem().Kind() == reflect.Struct && strings.HasSuffix(args[0].Elem().Type().Name(), "Params") {
		st := args[0].Elem()
		for i := 0; i < st.NumField(); i++ {
			slots = append(slots, st.Field(i))
		}
	} else {
		slots = args
	}
	if len(slots) != len(nf) {
		return fmt.Sprintf("%d arguments/fields, the schema function has %d parameters", len(slots), len(nf))
	}
	fi := 0
	for i := range v.Def.Params {
		if v.Def.Params[i].IsFlagsWord() {
			continue
		}
		if slots[fi].Kind() == reflect.Int && (v.Fields[i].Kind == ts.KInt || v.Fields[i].Kind == ts.KLong) {
			// hand-written wrappers take plain int
			if slots[fi].Int() != v.Fields[i].I {
				return fmt.Sprintf("argument %d (%d) does not arrive as parameter %s (%d)", fi, slots[fi].Int(), v.Def.Params[i].Name, v.Fields[i].I)
			}
			fi++
			continue
		}
		if err := bridge.Match(slots[fi], &v.Fields[i]); err != nil {
			return fmt.Sprintf("argument %d does not arrive as parameter %d (%s:%s): %v", fi, fi, v.Def.Params[i].Name, v.Def.Params[i].Type, err)
		}
		fi++
	}
	return ""
}
