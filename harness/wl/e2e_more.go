package wl

import (
	"crypto/x509"
	"encoding/pem"
	"fmt"
	"math/rand"
	"os"
	"path/filepath"
	"strings"
	"sync"
	"sync/atomic"
	"time"

	"github.com/xelaj/mtproto"
	"github.com/xelaj/mtproto/internal/session"
	"github.com/xelaj/mtproto/telegram"
	"github.com/xelaj/mtproto/zverif/ref/mtp"
	ts "github.com/xelaj/mtproto/zverif/ref/tlschema"
	"github.com/xelaj/mtproto/zverif/refserver"
	"github.com/xelaj/mtproto/zverif/wk"
)

func init() {
	wk.Register("c03e2e", c03e2e)
	wk.Register("c04e2e", c04e2e)
	wk.Register("c12e2e", c12e2e)
	wk.Register("c17e2e", c17e2e)
}

func countEv(w *world, ev string) int {
	n := 0
	w.mu.Lock()
	for _, e := range w.evs {
		if e.Ev == ev {
			n++
		}
	}
	w.mu.Unlock()
	return n
}

// ---- C03 end to end: every frame the client puts on the socket must be openable by the reference server.
func c03e2e(c *wk.Ctx) {
	idx := 0
	for k := 0; k < c.Pick(10, 200); k++ {
		if c.Mine(idx) {
			r := c.Rand(idx)
			sc := randScenario(r, false)
			sc.Delays = map[string]int{}
			fresh := k%3 == 0
			c.Begin(idx, fmt.Sprintf("e2e fresh=%v %s", fresh, toJSON(sc)))
			e, err := newRPCEnv(c, idx, r, envOpts{Fresh: fresh})
			if err != nil {
				c.Viol("C03", idx, "e2e/setup", err.Error(), nil)
			} else {
				res := runRPCScenario(e, r, sc)
				e.quiesce(time.Second)
				frames := countEv(e.w, "srv.recv") + countEv(e.w, "srv.plain")
				bad := countEv(e.w, "srv.badframe")
				c.Count("e2e.frames_opened", int64(frames))
				if bad > 0 {
					c.Viol("C03", idx, "e2e/frame-not-openable", fmt.Sprintf("%d of %d frames written by the client could not be opened by the reference server", bad, bad+frames), nil)
				}
				if res.Unfinished > 0 {
					if res.Stalled {
						c.Viol("C03", idx, "e2e/answers-not-opened", fmt.Sprintf("%d calls never returned and nothing can move although the reference server sealed and sent every answer (auth key id %x): the client does not open what a conformant server seals", res.Unfinished, mtp.AuthKeyID(e.key)), res.Dump)
					} else {
						c.Log.Emit(coreInconclusive("c03e2e: scenario did not finish"))
					}
				}
				c.Distinct("e2e", k, frames)
				e.close()
			}
		}
		idx++
	}
}

// ---- C04 end to end: corrupted frames interleaved with probes.
func c04e2e(c *wk.Ctx) {
	idx := 0
	for k := 0; k < c.Pick(8, 120); k++ {
		if c.Mine(idx) {
			r := c.Rand(idx)
			c.Begin(idx, fmt.Sprintf("corrupted frames %d", k))
			c04e2eCase(c, idx, r)
		}
		idx++
	}
}

func c04e2eCase(c *wk.Ctx, idx int, r *rand.Rand) {
	e, err := newRPCEnv(c, idx, r, envOpts{Handler: func(e *rpcEnv, p pendingReq, in *mtp.Inner) bool {
		e.sendGroup(p.conn, [][]byte{e.resultBody(p, wrapOpts{})}, []uint64{p.uid}, false)
		return true
	}})
	if err != nil {
		c.Viol("C04", idx, "e2e/setup", err.Error(), nil)
		return
	}
	defer e.close()
	used := map[uint64]bool{}
	probe := func(stage string) bool {
		var rec callRec
		kind := rpcKinds[r.Intn(len(rpcKinds))]
		uid := uidFor(r, kind, used)
		if !withTimeout(25*time.Second, func() { rec = e.doCall(0, uid, kind, false) }) {
			if st, dump := isStalled(); st {
				c.Viol("C04", idx, "e2e/stall/"+stage, "the client stopped answering after corrupted frames", dump)
			} else {
				c.Log.Emit(coreInconclusive("c04e2e: probe did not return"))
			}
			return false
		}
		if rec.Panic != "" || rec.Err != "" || !rec.OK {
			c.Viol("C04", idx, "e2e/probe/"+stage, fmt.Sprintf("panic=%q err=%q got=%q", rec.Panic, rec.Err, rec.Got), nil)
			return false
		}
		return true
	}
	if !probe("before") {
		return
	}
	conns := e.srv.Conns()
	cn := conns[len(conns)-1]
	key, sess := cn.KeySession()
	n := 3 + r.Intn(6)
	kinds := ""
	for i := 0; i < n; i++ {
		// a well-formed server message the client would act on if it accepted the altered packet:
		// an rpc_result for a made-up id carrying a wrong stamp
		in := mtp.Inner{Salt: e.salt(), Session: sess, MsgID: e.srv.NextMsgID(1), SeqNo: 1, Body: refserver.RPCResult(int64(r.Uint64())&^3, le32(0x997275b5))}
		pad := rbytes(r, (16-(32+len(in.Body))%16)%16)
		pkt := mtp.Seal(key, in, 8, pad)
		kind := []string{"bitflip-cipher", "bitflip-msgkey", "bitflip-keyid", "truncate", "truncate-short", "other-key", "garbage", "parity", "declared-len", "empty", "authentic-other-session", "authentic-other-salt", "authentic-replayed"}[r.Intn(13)]
		switch kind {
		case "authentic-other-session", "authentic-other-salt":
			// not altered at all, sealed by the key holder: a packet of another session under the same auth key (an
			// earlier run of the same application), or under a salt the client does not know. Whatever the client
			// makes of it, it goes on working.
			if kind == "authentic-other-session" {
				in.Session = int64(r.Uint64())
			} else {
				in.Salt = int64(r.Uint64())
			}
			pkt = mtp.Seal(key, in, 8, pad)
		case "authentic-replayed":
			cn.SendRaw(pkt) // and the very same packet once more below
		case "bitflip-cipher":
			pkt[24+r.Intn(len(pkt)-24)] ^= 1 << uint(r.Intn(8))
		case "bitflip-msgkey":
			pkt[8+r.Intn(16)] ^= 1 << uint(r.Intn(8))
		case "bitflip-keyid":
			pkt[r.Intn(8)] ^= 1 << uint(r.Intn(8))
		case "truncate":
			pkt = pkt[:24+16*r.Intn((len(pkt)-24)/16)]
		case "truncate-short":
			pkt = pkt[:4*(1+r.Intn(5))]
		case "other-key":
			pkt = append(append([]byte{}, mtp.AuthKeyID(key)...), mtp.Seal(rbytes(r, 256), in, 8, pad)[8:]...)
		case "garbage":
			pkt = append(append([]byte{}, pkt[:24]...), rbytes(r, 16*(1+r.Intn(6)))...)
		case "parity":
			in.MsgID &^= 3
			pkt = mtp.Seal(key, in, 8, pad)
		case "declared-len":
			pkt = mtp.SealDeclared(key, in, 8, pad, []int32{-1, -1 << 31, 1<<31 - 1, int32(len(in.Body) + 64)}[r.Intn(4)], nil)
		case "empty":
			pkt = []byte{}
		}
		kinds += kind + " "
		c.Count("e2e.corrupted."+kind, 1)
		cn.SendRaw(pkt)
		if r.Intn(2) == 0 {
			if !probe("between") {
				return
			}
		}
	}
	if !probe("after") {
		return
	}
	c.Distinct("e2e", kinds)
	if idx%4 == 0 {
		c.Sample(map[string]interface{}{"path": "end-to-end", "corrupted_frames": kinds})
	}
}

// ---- C12 end to end: a client started on a store that holds a session resumes with that key, salt and
// address without a new key exchange.
func c12e2e(c *wk.Ctx) {
	idx := 0
	for k := 0; k < c.Pick(5, 60); k++ {
		if c.Mine(idx) {
			r := c.Rand(idx)
			c.Begin(idx, fmt.Sprintf("resume %d", k))
			w := newWorld(c, idx)
			var srv *refserver.Server
			var firstSalt, firstKeyOK = int64(0), false
			var once sync.Once
			srv = w.server(refserver.HandlerFunc(func(cn *refserver.Conn, in *mtp.Inner) {
				once.Do(func() { firstSalt = in.Salt; firstKeyOK = true })
				if uid, _, res, ok := answerFor(in.Body); ok {
					key, _ := cn.KeySession()
					s, _ := srv.Salt(key)
					cn.SendEncrypted(refserver.Out{MsgID: srv.NextMsgID(1), SeqNo: cn.NextSeq(true), Body: refserver.RPCResult(in.MsgID, res)}, s, "rpc_result", map[string]interface{}{"uid": fmt.Sprint(uid)})
				}
			}))
			key := rbytes(r, 256)
			if k%2 == 0 {
				key[0] = 0
			}
			salt := pick64(r)
			w.keys.Add(key)
			srv.SetSalt(key, salt)
			sess := w.sessionPath("s")
			session.NewFromFile(sess).Store(&session.Session{Key: key, Hash: mtp.AuthKeyID(key), Salt: salt, Hostname: srv.Addr})
			// the configured host is a closed port: only the stored address can work
			cfg := mtproto.Config{AuthKeyFile: sess, ServerHost: "127.0.0.1:1", PublicKey: &srv.RSA.PublicKey}
			if k%3 == 2 {
				// the same session held by the application's own storage (Config.SessionStorage)
				st := &memStore{}
				st.Store(&session.Session{Key: key, Hash: mtp.AuthKeyID(key), Salt: salt, Hostname: srv.Addr})
				os.Remove(sess)
				cfg = mtproto.Config{SessionStorage: st, ServerHost: "127.0.0.1:1", PublicKey: &srv.RSA.PublicKey}
				c.Count("e2e.resumes_from_application_storage", 1)
			}
			m, err := mtproto.NewMTProto(cfg)
			if err != nil {
				c.Viol("C12", idx, "e2e/new-client", err.Error(), nil)
				w.close()
				idx++
				continue
			}
			m.Warnings = make(chan error, 16)
			go func() {
				for range m.Warnings {
				}
			}()
			var cerr error
			var pan bool
			var pm string
			okc := withTimeout(40*time.Second, func() { pan, pm, _ = wk.Guard(func() { cerr = m.CreateConnection() }) })
			switch {
			case !okc:
				c.Log.Emit(coreInconclusive("c12e2e: CreateConnection did not return"))
			case pan || cerr != nil:
				c.Viol("C12", idx, "e2e/resume-failed", fmt.Sprint("a client started on a stored session could not connect to the stored address: ", pm, cerr), nil)
			default:
				uid := r.Uint64()
				var res interface{}
				var rerr error
				okr := withTimeout(25*time.Second, func() {
					wk.Guard(func() {
						res, rerr = m.MakeRequest(&telegram.MessagesGetDhConfigParams{Version: int32(uint32(uid)), RandomLength: int32(uint32(uid >> 32))})
					})
				})
				if !okr || rerr != nil {
					c.Viol("C12", idx, "e2e/first-request", fmt.Sprint("the first request of a resumed session did not complete: ", rerr), nil)
				} else if ok, got := checkStamp(uid, "object", res); !ok {
					c.Viol("C12", idx, "e2e/first-request-answer", got, nil)
				}
				if n := countEv(w, "srv.plain"); n > 0 {
					c.Viol("C12", idx, "e2e/key-exchange-on-resume", fmt.Sprintf("%d plaintext (key exchange) frames were sent although the store holds a session", n), nil)
				}
				if firstKeyOK && firstSalt != salt {
					c.Viol("C12", idx, "e2e/salt-not-resumed", fmt.Sprintf("first frame carries salt %d, stored salt is %d", firstSalt, salt), nil)
				}
				if !firstKeyOK {
					c.Viol("C12", idx, "e2e/no-frame-under-stored-key", "no frame under the stored key reached the stored address", nil)
				}
				c.Distinct("resume", k, key[0] == 0, salt)
				c.Count("e2e.resumes", 1)
				safeDisconnect(m)
			}
			w.close()
		}
		idx++
	}
}

// ---- C17 end to end: rpc_error to the right caller, PHONE_MIGRATE_X.
func c17e2e(c *wk.Ctx) {
	idx := 0
	// (a) concurrent callers, each answered with its own rpc_error
	for k := 0; k < c.Pick(10, 200); k++ {
		if c.Mine(idx) {
			r := c.Rand(idx)
			sc := randScenario(r, false)
			sc.PError = 1
			c.Begin(idx, "errors "+toJSON(sc))
			e, err := newRPCEnv(c, idx, r, envOpts{})
			if err != nil {
				c.Viol("C17", idx, "e2e/setup", err.Error(), nil)
			} else {
				res := runRPCScenario(e, r, sc)
				if res.Unfinished > 0 {
					if res.Stalled {
						c.Viol("C17", idx, "e2e/stall", "calls answered with rpc_error never returned", res.Dump)
					} else {
						c.Log.Emit(coreInconclusive("c17e2e: scenario did not finish"))
					}
				}
				for _, rc := range res.Calls {
					c.Count("e2e.error_calls", 1)
					if rc.Panic != "" {
						c.Viol("C17", idx, "e2e/caller-panic", rc.Panic, sc)
					} else if !rc.OK {
						c.Viol("C17", idx, "e2e/wrong-error", fmt.Sprintf("call uid=%d: want its own rpc_error (code %d, UID_%d_ERROR), got code=%d message=%q err=%q", rc.UID, 400+rc.UID%100, rc.UID, rc.ErrCode, rc.Got, rc.Err), sc)
					}
				}
				c.Distinct("errors", interleavingSig(res.HookSeq))
				e.close()
			}
		}
		idx++
	}
	// (a2) hostile and look-alike error texts through the live client: every one must come back to its caller as a
	// structured error with the server's code (no panic in the caller, nothing swallowed, nothing repeated elsewhere)
	for k := 0; k < c.Pick(4, 40); k++ {
		if c.Mine(idx) {
			c.Begin(idx, fmt.Sprintf("error texts %d", k))
			c17texts(c, idx, c.Rand(idx))
		}
		idx++
	}
	// (a3) the data-centre table filled by telegram.NewClient from help.getConfig, then a migration through it
	for k := 0; k < c.Pick(3, 30); k++ {
		if c.Mine(idx) {
			c.Begin(idx, fmt.Sprintf("NewClient + migrate %d", k))
			c17newClient(c, idx, c.Rand(idx))
		}
		idx++
	}
	// (b) PHONE_MIGRATE_X
	for k := 0; k < c.Pick(16, 160); k++ {
		if c.Mine(idx) {
			r := c.Rand(idx)
			configured := k%3 != 2
			inflight := r.Intn(4)
			c.Begin(idx, fmt.Sprintf("migrate configured=%v inflight=%d variant=%d", configured, inflight, k))
			c17migrate(c, idx, r, configured, inflight, k)
		}
		idx++
	}
}

func c17migrate(c *wk.Ctx, idx int, r *rand.Rand, configured bool, inflight int, variant int) {
	dc := 2 + r.Intn(4)
	migrateCode := []int32{303, 303, 400, 420, 500, 406}[r.Intn(6)]
	var migrated sync.Map           // uid -> true once refused by dc1
	var toMigrate sync.Map          // uids dc1 refuses
	var toMigrateElsewhere sync.Map // uids dc1 redirects to a data centre that is not configured
	var e *rpcEnv
	var srv2 *refserver.Server
	var err error
	var holdMu sync.Mutex
	held := map[uint64]bool{}
	e, err = newRPCEnv(c, idx, r, envOpts{Handler: func(e *rpcEnv, p pendingReq, in *mtp.Inner) bool {
		holdMu.Lock()
		h := held[p.uid]
		holdMu.Unlock()
		if h {
			return false
		}
		if _, elsewhere := toMigrateElsewhere.Load(p.uid); elsewhere {
			b := refserver.RPCResult(p.msgID, refserver.RPCError(migrateCode, "PHONE_MIGRATE_77"))
			e.sendGroup(p.conn, [][]byte{b}, []uint64{p.uid}, false)
			return true
		}
		if _, refuse := toMigrate.Load(p.uid); refuse {
			// dc1 refuses: this account lives in another data centre
			migrated.Store(p.uid, true)
			b := refserver.RPCResult(p.msgID, refserver.RPCError(migrateCode, fmt.Sprintf("PHONE_MIGRATE_%d", dc)))
			e.sendGroup(p.conn, [][]byte{b}, []uint64{p.uid}, false)
			return true
		}
		e.sendGroup(p.conn, [][]byte{e.resultBody(p, wrapOpts{})}, []uint64{p.uid}, false)
		return true
	}})
	if err != nil {
		c.Viol("C17", idx, "e2e/setup", err.Error(), nil)
		return
	}
	defer e.close()
	arrived2 := map[uint64]int{}
	var mu2 sync.Mutex
	srv2 = e.w.server(refserver.HandlerFunc(func(cn *refserver.Conn, in *mtp.Inner) {
		if uid, _, res, ok := answerFor(in.Body); ok {
			mu2.Lock()
			arrived2[uid]++
			mu2.Unlock()
			key, _ := cn.KeySession()
			s, _ := srv2.Salt(key)
			if in.Salt != s {
				cn.SendEncrypted(refserver.Out{MsgID: srv2.NextMsgID(3), SeqNo: cn.NextSeq(false), Body: refserver.BadServerSalt(in.MsgID, in.SeqNo, s)}, s, "bad_server_salt", nil)
				return
			}
			cn.SendEncrypted(refserver.Out{MsgID: srv2.NextMsgID(1), SeqNo: cn.NextSeq(true), Body: refserver.RPCResult(in.MsgID, res)}, s, "rpc_result", map[string]interface{}{"uid": fmt.Sprint(uid)})
		}
	}))
	srv2.SetSalt(e.key, int64(r.Uint64()))
	// a third data centre: for some requests the second one redirects once more, the third back, and so on for a
	// number of hops before the answer comes (each redirect names a configured data centre)
	hops := int32(0)
	if configured && variant%4 == 1 {
		hops = []int32{7, 3, 12, 25}[(variant/4)%4]
	}
	hopsLeft := hops
	dc3 := dc%5 + 6
	var srv3 *refserver.Server
	redirect := func(self *refserver.Server, other int) refserver.Handler {
		return refserver.HandlerFunc(func(cn *refserver.Conn, in *mtp.Inner) {
			if uid, _, res, ok := answerFor(in.Body); ok {
				key, _ := cn.KeySession()
				sl, _ := self.Salt(key)
				if in.Salt != sl {
					cn.SendEncrypted(refserver.Out{MsgID: self.NextMsgID(3), SeqNo: cn.NextSeq(false), Body: refserver.BadServerSalt(in.MsgID, in.SeqNo, sl)}, sl, "bad_server_salt", nil)
					return
				}
				if atomic.AddInt32(&hopsLeft, -1) >= 0 {
					cn.SendEncrypted(refserver.Out{MsgID: self.NextMsgID(1), SeqNo: cn.NextSeq(true), Body: refserver.RPCResult(in.MsgID, refserver.RPCError(303, fmt.Sprintf("PHONE_MIGRATE_%d", other)))}, sl, "rpc_result", nil)
					return
				}
				mu2.Lock()
				arrived2[uid]++
				mu2.Unlock()
				cn.SendEncrypted(refserver.Out{MsgID: self.NextMsgID(1), SeqNo: cn.NextSeq(true), Body: refserver.RPCResult(in.MsgID, res)}, sl, "rpc_result", map[string]interface{}{"uid": fmt.Sprint(uid)})
			}
		})
	}
	if hops > 0 {
		srv2.Handler = redirect(srv2, dc3)
		srv3 = e.w.server(nil)
		srv3.Handler = redirect(srv3, dc)
		srv3.SetSalt(e.key, int64(r.Uint64()))
		e.m.SetDCList(map[int]string{dc3: srv3.Addr})
		c.Count(fmt.Sprintf("e2e.migrations.hops=%d", hops+1), 1)
	}
	if configured {
		e.m.SetDCList(map[int]string{dc: srv2.Addr})
	} else {
		e.m.SetDCList(map[int]string{dc + 10: srv2.Addr})
		dc = 77 // not in the table (the default table has 1..5)
	}
	used := map[uint64]bool{}
	// other calls answered before the migration
	for i := 0; i < inflight; i++ {
		kind := []string{"bool", "vector-int", "vector-long"}[r.Intn(3)]
		var rec callRec
		uid := uidFor(r, kind, used)
		if !withTimeout(20*time.Second, func() { rec = e.doCall(1+i, uid, kind, false) }) || !rec.OK {
			c.Viol("C17", idx, "e2e/call-before-migration", fmt.Sprintf("%+v", rec), nil)
			return
		}
	}
	// history on one client: a redirect to a data centre nobody configured (an error, as stated) comes first
	if configured && variant%4 == 3 {
		uid0 := uidFor(r, "object", used)
		toMigrateElsewhere.Store(uid0, true)
		var rec0 callRec
		if !withTimeout(30*time.Second, func() { rec0 = e.doCall(0, uid0, "object", false) }) {
			if st, dump := isStalled(); st {
				c.Viol("C17", idx, "e2e/migrate-stall/unconfigured-first", "the request redirected to an unconfigured data centre never returned", dump)
			} else {
				c.Log.Emit(coreInconclusive("c17e2e: unconfigured migration did not return"))
			}
			return
		}
		if rec0.Err == "" {
			c.Viol("C17", idx, "e2e/migrate-unconfigured-not-error", fmt.Sprintf("PHONE_MIGRATE_77 with no such data centre configured: %+v", rec0), nil)
		}
		c.Count("e2e.migrations.unconfigured_then_configured", 1)
	}
	// the refused request is of any result kind: an object, a Bool, or a vector (decoded with the caller's hints)
	migKind := rpcKinds[r.Intn(len(rpcKinds))]
	if idx%2 == 0 {
		migKind = "object"
	}
	uid := uidFor(r, migKind, used)
	toMigrate.Store(uid, true)
	var rec callRec
	if !withTimeout(40*time.Second, func() { rec = e.doCall(0, uid, migKind, r.Intn(2) == 0) }) {
		if st, dump := isStalled(); st {
			c.Viol("C17", idx, fmt.Sprintf("e2e/migrate-stall/configured=%v", configured), "the migrating request never returned and nothing can move", dump)
		} else {
			c.Log.Emit(coreInconclusive("c17e2e: migrating call did not return"))
		}
		return
	}
	mu2.Lock()
	at2 := arrived2[uid]
	mu2.Unlock()
	switch {
	case rec.Panic != "":
		c.Viol("C17", idx, fmt.Sprintf("e2e/migrate-panic/configured=%v", configured), rec.Panic, nil)
	case configured && (!rec.OK || at2 < 1):
		c.Viol("C17", idx, fmt.Sprintf("e2e/migrate-not-repeated/code=%d", migrateCode), fmt.Sprintf("PHONE_MIGRATE_%d (error code %d) with DC %d configured: request arrived %d times at the new data centre; call returned ok=%v err=%q got=%q", dc, migrateCode, dc, at2, rec.OK, rec.Err, rec.Got), nil)
	case !configured && (rec.Err == "" || at2 != 0):
		c.Viol("C17", idx, "e2e/migrate-unconfigured-not-error", fmt.Sprintf("PHONE_MIGRATE_%d with DC %d NOT configured: err=%q, arrivals at the other server %d", dc, dc, rec.Err, at2), nil)
	}
	c.Count(fmt.Sprintf("e2e.migrations.configured=%v", configured), 1)
	c.Distinct("migrate", configured, inflight, dc, migKind)
	c.Count("e2e.migrations.kind="+migKind, 1)
	if idx%3 == 0 {
		c.Sample(map[string]interface{}{"path": "PHONE_MIGRATE_X", "configured": configured, "dc": dc, "calls_before": inflight})
	}
}

// c17texts: the server answers each request with an rpc_error whose text comes from a hostile list; a second data
// centre is configured under several numbers so that a wrongly handled *_MIGRATE_ text would be repeated there.
func c17texts(c *wk.Ctx, idx int, r *rand.Rand) {
	texts := []string{"PHONE_MIGRATE_", "PHONE_MIGRATE_abc", "PHONE_MIGRATE_-", "PHONE_MIGRATE_99999999999999999999", "PHONE_MIGRATE_%d",
		"USER_MIGRATE_2", "NETWORK_MIGRATE_2", "FILE_MIGRATE_2", "STATS_MIGRATE_2", "USER_MIGRATE_3", "NETWORK_MIGRATE_4",
		"FLOOD_WAIT_abc", "FLOOD_WAIT_", "FLOOD_WAIT_7", "SLOWMODE_WAIT_30", "INTERDC_2_CALL_ERROR", "INTERDC_2_CALL_RICH_ERROR", "FILE_PART_3_MISSING",
		"FILE_PART_MISSING", "%s%s%s", "100%", "", "AUTH_KEY_UNREGISTERED", "UNKNOWN_TEXT_X", "PHONE_MIGRATE_X", "PHONE_MIGRATE_77"}
	var mu sync.Mutex
	textFor := map[uint64]string{}
	e, err := newRPCEnv(c, idx, r, envOpts{Handler: func(e *rpcEnv, p pendingReq, in *mtp.Inner) bool {
		mu.Lock()
		t, ok := textFor[p.uid]
		mu.Unlock()
		if !ok {
			e.sendGroup(p.conn, [][]byte{e.resultBody(p, wrapOpts{})}, []uint64{p.uid}, false)
			return true
		}
		b := refserver.RPCResult(p.msgID, refserver.RPCError(int32(300+p.uid%200), t))
		e.sendGroup(p.conn, [][]byte{b}, []uint64{p.uid}, false)
		return true
	}})
	if err != nil {
		c.Viol("C17", idx, "e2e/setup", err.Error(), nil)
		return
	}
	defer e.close()
	arrived2 := 0
	var srv2 *refserver.Server
	srv2 = e.w.server(refserver.HandlerFunc(func(cn *refserver.Conn, in *mtp.Inner) {
		if uid, _, res, ok := answerFor(in.Body); ok {
			mu.Lock()
			arrived2++
			mu.Unlock()
			key, _ := cn.KeySession()
			s, _ := srv2.Salt(key)
			cn.SendEncrypted(refserver.Out{MsgID: srv2.NextMsgID(1), SeqNo: cn.NextSeq(true), Body: refserver.RPCResult(in.MsgID, res)}, in.Salt, "rpc_result", map[string]interface{}{"uid": fmt.Sprint(uid)})
			_ = s
		}
	}))
	srv2.SetSalt(e.key, e.salt())
	e.m.SetDCList(map[int]string{2: srv2.Addr, 3: srv2.Addr, 4: srv2.Addr})
	used := map[uint64]bool{}
	perm := r.Perm(len(texts))
	for _, ti := range perm[:8+r.Intn(8)] {
		text := texts[ti]
		kind := rpcKinds[r.Intn(len(rpcKinds))]
		uid := uidFor(r, kind, used)
		mu.Lock()
		textFor[uid] = text
		mu.Unlock()
		var rec callRec
		if !withTimeout(30*time.Second, func() { rec = e.doCall(0, uid, kind, false) }) {
			if st, dump := isStalled(); st {
				c.Viol("C17", idx, "e2e/text-stall", fmt.Sprintf("a request answered with rpc_error %q never returned", text), dump)
			} else {
				c.Log.Emit(coreInconclusive("c17texts: call did not return for " + text))
			}
			return
		}
		c.Count("e2e.error_texts", 1)
		c.Distinct("text", text, kind)
		wantCode := int(300 + uid%200)
		handled := strings.HasPrefix(text, "PHONE_MIGRATE_") && text != "PHONE_MIGRATE_X" && isAllDigits(strings.TrimPrefix(text, "PHONE_MIGRATE_"))
		switch {
		case rec.Panic != "":
			c.Viol("C17", idx, "e2e/text-panic/"+classOfText(text), fmt.Sprintf("rpc_error %q made the caller panic: %s", text, rec.Panic), text)
			return
		case handled:
			// PHONE_MIGRATE_<n>: handled (configured) or returned as an error (unconfigured) — covered by the migration cases
		case rec.Err == "":
			c.Viol("C17", idx, "e2e/error-swallowed/"+classOfText(text), fmt.Sprintf("rpc_error %q (code %d) was not returned to the caller: the call came back with %q", text, wantCode, rec.Got), text)
		case rec.ErrCode != wantCode:
			c.Viol("C17", idx, "e2e/text-code/"+classOfText(text), fmt.Sprintf("rpc_error %q: caller got code %d, server sent %d (err %q)", text, rec.ErrCode, wantCode, rec.Err), text)
		}
	}
	mu.Lock()
	a2 := arrived2
	mu.Unlock()
	if a2 > 0 {
		c.Viol("C17", idx, "e2e/repeated-at-another-dc", fmt.Sprintf("%d requests were repeated at another data centre although no PHONE_MIGRATE_<configured> was answered", a2), nil)
	}
}

func isAllDigits(s string) bool {
	if s == "" {
		return false
	}
	for _, r := range s {
		if r < '0' || r > '9' {
			return false
		}
	}
	return true
}

func classOfText(t string) string {
	if i := strings.LastIndex(t, "_"); i > 0 {
		return t[:i+1] + "*"
	}
	return "other"
}

// c17newClient: telegram.NewClient performs a key exchange, asks help.getConfig (wrapped in invokeWithLayer /
// initConnection) and fills the data-centre table from the answer; a request answered with PHONE_MIGRATE_<id>
// for an id of that table must then be repeated at the address the configuration named.
func c17newClient(c *wk.Ctx, idx int, r *rand.Rand) {
	if err := loadSchemas(); err != nil {
		c.Log.Emit(coreInconclusive(err.Error()))
		return
	}
	w := newWorld(c, idx)
	defer w.close()
	dcID := 2 + r.Intn(200)
	cdnID := dcID + 1
	var srv1, srv2 *refserver.Server
	var mu sync.Mutex
	arrived2 := map[uint64]int{}
	srv2 = w.server(refserver.HandlerFunc(func(cn *refserver.Conn, in *mtp.Inner) {
		if uid, _, res, ok := answerFor(in.Body); ok {
			mu.Lock()
			arrived2[uid]++
			mu.Unlock()
			cn.SendEncrypted(refserver.Out{MsgID: srv2.NextMsgID(1), SeqNo: cn.NextSeq(true), Body: refserver.RPCResult(in.MsgID, res)}, in.Salt, "rpc_result", map[string]interface{}{"uid": fmt.Sprint(uid)})
		}
	}))
	host2, port2 := splitHostPort(srv2.Addr)
	// the configuration the first server hands out
	cfgDef := allSchema.ByName["config"]
	dcDef := allSchema.ByName["dcOption"]
	if cfgDef == nil || dcDef == nil {
		c.Log.Emit(coreInconclusive("c17newClient: schema lacks config/dcOption"))
		return
	}
	mkDC := func(id int, ip string, port int, cdn bool) ts.Value {
		v := ts.Value{Kind: ts.KCon, Def: dcDef, Fields: make([]ts.Value, len(dcDef.Params))}
		for i, p := range dcDef.Params {
			switch p.Name {
			case "flags":
				v.Fields[i] = ts.Value{Kind: ts.KFlags}
			case "id":
				v.Fields[i] = ts.Value{Kind: ts.KInt, I: int64(id)}
			case "ip_address":
				v.Fields[i] = ts.Value{Kind: ts.KStr, B: []byte(ip)}
			case "port":
				v.Fields[i] = ts.Value{Kind: ts.KInt, I: int64(port)}
			case "cdn":
				if cdn {
					v.Fields[i] = ts.Value{Kind: ts.KTrue, I: 1}
				}
			}
		}
		return v
	}
	cfg := allSchema.Gen(cfgDef, &ts.GenOpts{R: r, MaxDepth: 1, Presence: map[int]bool{}, ForceStrLen: -1, Simple: true}, 0)
	for i, p := range cfgDef.Params {
		if p.Name == "dc_options" {
			cfg.Fields[i] = ts.Value{Kind: ts.KVec, Elems: []ts.Value{mkDC(1, "127.0.0.1", 1, false), mkDC(dcID, host2, port2, false), mkDC(cdnID, "127.0.0.1", 2, true)}}
		}
	}
	cfgBytes, err := ts.Serialize(cfg)
	if err != nil {
		c.Log.Emit(coreInconclusive("c17newClient: " + err.Error()))
		return
	}
	var sawWrapped int32
	srv1 = w.server(refserver.HandlerFunc(func(cn *refserver.Conn, in *mtp.Inner) {
		key, _ := cn.KeySession()
		salt, _ := srv1.Salt(key)
		if u32le0(in.Body) == 0xda9b0d0d { // invokeWithLayer(initConnection(help.getConfig))
			rd := &ts.Reader{B: in.Body}
			if v, derr := allSchema.ReadBoxed(rd); derr == nil && rd.Pos == len(in.Body) && v.Def.Name == "invokeWithLayer" {
				q := v.Fields[len(v.Fields)-1]
				if q.Def != nil && q.Def.Name == "initConnection" && q.Fields[len(q.Fields)-1].Def != nil && q.Fields[len(q.Fields)-1].Def.Name == "help.getConfig" {
					sawWrapped = 1
				}
			}
			cn.SendEncrypted(refserver.Out{MsgID: srv1.NextMsgID(1), SeqNo: cn.NextSeq(true), Body: refserver.RPCResult(in.MsgID, cfgBytes)}, salt, "rpc_result", nil)
			return
		}
		if uid, kind, res, ok := answerFor(in.Body); ok {
			body := res
			if kind == "object" {
				body = refserver.RPCError(303, fmt.Sprintf("PHONE_MIGRATE_%d", dcID))
			}
			if kind == "bool" {
				body = refserver.RPCError(303, fmt.Sprintf("PHONE_MIGRATE_%d", cdnID)) // CDN entries are not part of the table
			}
			cn.SendEncrypted(refserver.Out{MsgID: srv1.NextMsgID(1), SeqNo: cn.NextSeq(true), Body: refserver.RPCResult(in.MsgID, body)}, salt, "rpc_result", map[string]interface{}{"uid": fmt.Sprint(uid)})
		}
	}))
	srv2.RSA = srv1.RSA
	keyFile := filepath.Join(w.dir, "keys.pem")
	os.WriteFile(keyFile, pem.EncodeToMemory(&pem.Block{Type: "RSA PUBLIC KEY", Bytes: x509.MarshalPKCS1PublicKey(&srv1.RSA.PublicKey)}), 0o644)
	var cl *telegram.Client
	var cerr error
	var pan bool
	var pm, st string
	if !withTimeout(60*time.Second, func() {
		pan, pm, st = wk.Guard(func() {
			cl, cerr = telegram.NewClient(telegram.ClientConfig{SessionFile: w.sessionPath("nc"), ServerHost: srv1.Addr, PublicKeysFile: keyFile, AppID: 1, AppHash: "h", InitWarnChannel: true})
		})
	}) {
		if stl, dump := isStalled(); stl {
			c.Viol("C17", idx, "newclient/stall", "telegram.NewClient never returned", dump)
		} else {
			c.Log.Emit(coreInconclusive("c17newClient: NewClient did not return"))
		}
		return
	}
	if pan || cerr != nil {
		c.Viol("C17", idx, "newclient/failed", fmt.Sprint("telegram.NewClient against a conformant server: ", pm, cerr, " ", st), nil)
		return
	}
	go func() {
		for range cl.Warnings {
		}
	}()
	defer safeDisconnect(cl.MTProto)
	if sawWrapped == 0 {
		c.Viol("C17", idx, "newclient/init-request-shape", "the first request was not invokeWithLayer(initConnection(help.getConfig))", nil)
	}
	// the key exchange made srv1 know the key; srv2 shares the key store; give it a salt
	srv2.SetSalt(cl.GetAuthKey(), cl.GetServerSalt())
	e := &rpcEnv{c: c, idx: idx, w: w, srv: srv1, m: cl.MTProto, tc: cl}
	uid := uint64(r.Uint32()) | uint64(r.Uint32())<<32
	var rec callRec
	if !withTimeout(40*time.Second, func() { rec = e.doCall(0, uid, "object", true) }) {
		if stl, dump := isStalled(); stl {
			c.Viol("C17", idx, "newclient/migrate-stall", "the migrating request never returned", dump)
		} else {
			c.Log.Emit(coreInconclusive("c17newClient: migrating call did not return"))
		}
		return
	}
	mu.Lock()
	at2 := arrived2[uid]
	mu.Unlock()
	if rec.Panic != "" || !rec.OK || at2 < 1 {
		c.Viol("C17", idx, "newclient/migrate-to-configured-dc", fmt.Sprintf("help.getConfig named DC %d at %s; PHONE_MIGRATE_%d: request arrived %d times there; call ok=%v err=%q panic=%q", dcID, srv2.Addr, dcID, at2, rec.OK, rec.Err, rec.Panic), nil)
	}
	c.Count("e2e.newclient_migrations", 1)
	c.Distinct("newclient", dcID, port2)
	if idx%2 == 0 {
		c.Sample(map[string]interface{}{"path": "telegram.NewClient -> help.getConfig -> SetDCList -> PHONE_MIGRATE", "dc": dcID})
	}
}

func splitHostPort(a string) (string, int) {
	i := strings.LastIndex(a, ":")
	p := 0
	fmt.Sscan(a[i+1:], &p)
	return a[:i], p
}
