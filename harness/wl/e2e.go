package wl

import (
	"encoding/binary"
	"fmt"
	"github.com/xelaj/mtproto/internal/session"
	"os"
	"path/filepath"
	"sync"
	"syscall"
	"time"

	"github.com/xelaj/mtproto"
	"github.com/xelaj/mtproto/zverif/core"
	"github.com/xelaj/mtproto/zverif/ref/mtp"
	"github.com/xelaj/mtproto/zverif/refserver"
	"github.com/xelaj/mtproto/zverif/wk"
)

// world is one scenario's stage: a reference server (or several), a temp dir for session files, and the
// event sink that stamps every event with the case id.
type world struct {
	c     *wk.Ctx
	idx   int
	dir   string
	keys  *refserver.KeyStore
	srvs  []*refserver.Server
	mu    sync.Mutex
	store session.SessionLoader // non-nil: clients of this world are configured with this storage instead of a file
	evs   []core.Event          // copy of what was logged, for in-process checkers
	warns []string
}

func newWorld(c *wk.Ctx, idx int) *world {
	// where the session file lives: usually under the temporary directory; in one world out of five on another
	// filesystem than the temporary directory (a home directory on its own volume, a tmpfs), when the machine has one
	base := ""
	if idx%5 == 2 {
		if o := otherFilesystem(); o != "" {
			base = o
			c.Count("worlds.session_on_another_filesystem", 1)
		}
	}
	d, err := os.MkdirTemp(base, "vw-")
	if err != nil {
		d, _ = os.MkdirTemp("", "vw-")
	}
	return &world{c: c, idx: idx, dir: d, keys: refserver.NewKeyStore()}
}

// otherFilesystem returns a writable directory on a different device than os.TempDir(), or "".
func otherFilesystem() string {
	var t, o syscall.Stat_t
	if syscall.Stat(os.TempDir(), &t) != nil {
		return ""
	}
	for _, cand := range []string{"/dev/shm", "/run/shm", "/var/tmp", "/run/user/0"} {
		if syscall.Stat(cand, &o) == nil && o.Dev != t.Dev {
			if d, err := os.MkdirTemp(cand, "vwprobe-"); err == nil {
				os.Remove(d)
				return cand
			}
		}
	}
	return ""
}

func (w *world) emit(ev string, d map[string]interface{}) {
	e := core.Event{Ev: ev, Case: fmt.Sprint(w.idx), Data: core.J(d)}
	w.c.Log.Emit(e)
	w.mu.Lock()
	w.evs = append(w.evs, e)
	w.mu.Unlock()
}

func (w *world) server(h refserver.Handler) *refserver.Server {
	s, err := refserver.New(fmt.Sprintf("dc%d", len(w.srvs)+1), w.keys, w.emit, h)
	if err != nil {
		panic(err)
	}
	w.srvs = append(w.srvs, s)
	return s
}

func (w *world) close() {
	for _, s := range w.srvs {
		s.Close()
	}
	os.RemoveAll(w.dir)
}

func (w *world) sessionPath(name string) string { return filepath.Join(w.dir, name+".json") }

// client builds a client on the given session file pointing at addr. Warnings are drained and recorded.
func (w *world) client(addr, sess string, srv *refserver.Server) (*mtproto.MTProto, error) {
	cfg := mtproto.Config{AuthKeyFile: sess, ServerHost: addr, PublicKey: &srv.RSA.PublicKey}
	if w.store != nil {
		cfg = mtproto.Config{SessionStorage: w.store, ServerHost: addr, PublicKey: &srv.RSA.PublicKey}
	}
	m, err := mtproto.NewMTProto(cfg)
	if err != nil {
		return nil, err
	}
	ch := make(chan error, 64)
	m.Warnings = ch
	go func() {
		for e := range ch {
			w.mu.Lock()
			w.warns = append(w.warns, e.Error())
			w.mu.Unlock()
			w.emit("warn", map[string]interface{}{"text": e.Error()})
		}
	}()
	return m, nil
}

// withTimeout runs f; ok=false means it did not return within d (wall-clock watchdog: inconclusive/stall material, never a verdict by itself).
func withTimeout(d time.Duration, f func()) (ok bool) {
	done := make(chan struct{})
	go func() { defer close(done); f() }()
	select {
	case <-done:
		return true
	case <-time.After(d):
		return false
	}
}

// stamp is the answer the reference server gives to uid: a function the client cannot know in advance.
func stamp(uid uint64) uint64 { return core.Hash64("stamp", uid) }

func u32le(b []byte) uint32 { return binary.LittleEndian.Uint32(b) }

// answerFor builds the result body for a probe-able API request, keyed by its constructor id.
// Supported requests (uid carrier -> result):
//
//	messages.getDhConfig#26cf8950 version:int random_length:int -> messages.dhConfigNotModified#c0e24635 random:bytes (stamp in bytes)
//	account.checkUsername#2714d86c username:string              -> Bool (one hash bit of the uid)
//	contacts.getContactIDs#2caa4a42 hash:int                    -> Vector<int> [uid32, stamp32, stamp32>>...]
//	messages.receivedQueue#55a5bb66 max_qts:int                 -> Vector<long> [uid, stamp]
//	messages.receivedMessages#5a954c0 max_id:int               -> Vector<ReceivedNotifyMessage> (id=uid32, flags=stamp32)
func answerFor(body []byte) (uid uint64, kind string, result []byte, ok bool) {
	if len(body) < 4 {
		return 0, "", nil, false
	}
	switch u32le(body) {
	case 0x26cf8950:
		if len(body) < 12 {
			return 0, "", nil, false
		}
		uid = uint64(u32le(body[4:])) | uint64(u32le(body[8:]))<<32
		st := make([]byte, 8)
		binary.LittleEndian.PutUint64(st, stamp(uid))
		return uid, "object", append(le32(0xc0e24635), mtp.TLBytes(st)...), true
	case 0x2714d86c:
		s, okk := tlString(body[4:])
		if !okk {
			return 0, "", nil, false
		}
		uid = core.Hash64("user", s)
		if len(s) >= 16 {
			fmt.Sscanf(s[:16], "%016x", &uid)
		}
		if stamp(uid)&1 == 1 {
			return uid, "bool", le32(0x997275b5), true
		}
		return uid, "bool", le32(0xbc799737), true
	case 0x2caa4a42:
		if len(body) < 8 {
			return 0, "", nil, false
		}
		uid = uint64(u32le(body[4:]))
		st := stamp(uid)
		r := append(le32(0x1cb5c415), le32(3)...)
		r = append(r, le32(uint32(uid))...)
		r = append(r, le32(uint32(st))...)
		r = append(r, le32(uint32(st>>32))...)
		return uid, "vector-int", r, true
	case 0x55a5bb66:
		if len(body) < 8 {
			return 0, "", nil, false
		}
		uid = uint64(u32le(body[4:]))
		n := bigLen(uid)
		r := append(le32(0x1cb5c415), le32(uint32(2+n))...)
		r = append(r, le64(uid)...)
		st := stamp(uid)
		r = append(r, le64(st)...)
		for i := 0; i < n; i++ { // one request in sixteen has a result of several hundred KiB
			r = append(r, le64(bigElem(st, i))...)
		}
		return uid, "vector-long", r, true
	case 0x05a954c0:
		if len(body) < 8 {
			return 0, "", nil, false
		}
		uid = uint64(u32le(body[4:]))
		st := stamp(uid)
		r := append(le32(0x1cb5c415), le32(2)...)
		for i := 0; i < 2; i++ {
			r = append(r, le32(0xa384b779)...) // receivedNotifyMessage id:int flags:int
			r = append(r, le32(uint32(uid))...)
			r = append(r, le32(uint32(st>>(32*uint(i))))...)
		}
		return uid, "vector-object", r, true
	}
	return 0, "", nil, false
}

// bigLen: how many extra elements the vector-long answer for uid carries (0 for fifteen uids in sixteen).
func bigLen(uid uint64) int {
	if uid%16 != 7 {
		return 0
	}
	return 30000 + int(uid>>4)%40000
}

func bigElem(st uint64, i int) uint64 { return core.Hash64("big", st, uint64(i)) }

func tlString(b []byte) (string, bool) {
	if len(b) < 1 {
		return "", false
	}
	n := int(b[0])
	off := 1
	if n == 254 {
		if len(b) < 4 {
			return "", false
		}
		n = int(b[1]) | int(b[2])<<8 | int(b[3])<<16
		off = 4
	}
	if off+n > len(b) {
		return "", false
	}
	return string(b[off : off+n]), true
}
