package wl

import (
	"fmt"
	"runtime/debug"

	"github.com/xelaj/mtproto/internal/encoding/tl"

	"github.com/xelaj/mtproto/zverif/wk"
)

// Types of the CALLER, decoded "as a named type": tl.Decode takes any tl.Object, not only the registered ones, and
// an application (or a later API layer) may well define a type that refers to itself — directly through an optional
// field, or through a vector. No constructor registered today has such a cycle, so chains of registered objects
// never recurse through this path of the decoder.
type c15Node struct {
	Value int32
	Next  *c15Node `tl:"flag:0"`
}

func (*c15Node) CRC() uint32    { return 0x7c150001 }
func (*c15Node) FlagIndex() int { return 0 }

type c15Tree struct {
	Value int32
	Kids  []*c15Tree
}

func (*c15Tree) CRC() uint32 { return 0x7c150002 }

// c15userTypes: long chains of caller-defined self-referential types. The outcome must be a value or an error; what
// must not happen is recursion bounded by nothing but the input (the runtime's "goroutine stack exceeds limit" is a
// fatal error no recover() stops). To make that observable with megabytes instead of hundreds of megabytes of
// input the stack limit of the child is lowered to 64 MB for these cases — 512 levels of the decoder need well
// under 1 MB, so a decoder that bounds its nesting is nowhere near it.
func c15userTypes(c *wk.Ctx, m *c15mon, idx *int) {
	for _, nodes := range []int{3, 400, 511, 512, 513, 5000, c.Pick(400000, 2000000)} {
		for shape := 0; shape < 2; shape++ {
			if c.Mine(*idx) {
				var in []byte
				name := "pointer-chain"
				if shape == 0 {
					in = make([]byte, 0, nodes*12)
					for i := 0; i < nodes; i++ {
						in = append(in, le32(0x7c150001)...)
						if i == nodes-1 {
							in = append(in, le32(0)...)
						} else {
							in = append(in, le32(1)...)
						}
						in = append(in, le32(uint32(i))...)
					}
				} else {
					name = "vector-chain"
					in = make([]byte, 0, nodes*16)
					for i := 0; i < nodes; i++ {
						in = append(in, le32(0x7c150002)...)
						in = append(in, le32(uint32(i))...)
						in = append(in, le32(0x1cb5c415)...)
						if i == nodes-1 {
							in = append(in, le32(0)...)
						} else {
							in = append(in, le32(1)...)
						}
					}
				}
				c.Begin(*idx, fmt.Sprintf("caller-defined %s nodes=%d bytes=%d", name, nodes, len(in)))
				old := debug.SetMaxStack(64 << 20)
				var gotDepth int
				m.call(*idx, in, "Decode", "user-type-"+name, func() error {
					var e error
					if shape == 0 {
						var v c15Node
						e = tl.Decode(in, &v)
						if e == nil {
							for p := &v; p != nil; p = p.Next {
								gotDepth++
							}
						}
					} else {
						var v c15Tree
						e = tl.Decode(in, &v)
						if e == nil {
							for p := &v; p != nil; {
								gotDepth++
								if len(p.Kids) == 0 {
									break
								}
								p = p.Kids[0]
							}
						}
					}
					return e
				})
				debug.SetMaxStack(old)
				if nodes <= 400 && (gotDepth == 0 || gotDepth%nodes != 0) {
					// a harness check: the types above must be decodable at all, or the long chains prove nothing
					c.Count("user_type.short_chain_not_decoded", 1)
				}
				c.Count("user_type.cases", 1)
				c.Distinct("user-type", name, nodes)
			}
			*idx++
		}
	}
}
