package wl

import (
	"bytes"
	"encoding/binary"
	"fmt"

	"github.com/xelaj/mtproto/internal/mtproto/messages"
	"github.com/xelaj/mtproto/zverif/ref/mtp"
	"github.com/xelaj/mtproto/zverif/wk"
)

func init() { wk.Register("c04", c04) }

// tryOpen runs the library's receive-side parser under recover.
func c04try(pkt, key []byte) (m *messages.Encrypted, err error, pan bool, pm, st string) {
	pkt = pkt[:len(pkt):len(pkt)] // what arrives from a transport has nothing behind it: capacity == length
	pan, pm, st = wk.Guard(func() { m, err = messages.DeserializeEncrypted(pkt, key) })
	return
}

func c04(c *wk.Ctx) {
	idx := 0
	npk := c.Pick(96, 2000)
	for p := 0; p < npk; p++ {
		if c.Mine(idx) {
			r := c.Rand(idx)
			key, _ := authKey(r)
			blen := []int{0, 1, 4, 8, 15, 16, 17, 40, 100, 256}[r.Intn(10)]
			if r.Intn(4) == 0 {
				blen = r.Intn(c.Pick(1500, 4096))
			}
			in := mtp.Inner{Salt: pick64(r), Session: pick64(r), MsgID: (pick64(r) &^ 3) | 1, SeqNo: int32(r.Intn(1000)), Body: rbytes(r, blen)}
			pad := rbytes(r, (16-(32+blen)%16)%16)
			pkt := mtp.Seal(key, in, 8, pad)
			c.Begin(idx, fmt.Sprintf("packet body=%d key=%x pkt=%x", blen, key[:8], wk.Short(string(pkt), 64)))
			// sanity: the unaltered packet is accepted (otherwise C03 fails, not C04)
			if m, err, pan, _, _ := c04try(pkt, key); pan || err != nil || !bytes.Equal(m.Msg, in.Body) {
				c.Count("c04.base_packet_not_accepted", 1)
			}
			// (a) every single-bit flip
			for i := 0; i < len(pkt)*8; i++ {
				q := append([]byte{}, pkt...)
				q[i/8] ^= 1 << (i % 8)
				region := "cipher"
				if i/8 < 8 {
					region = "key_id"
				} else if i/8 < 24 {
					region = "msg_key"
				}
				c04expectRefused(c, idx, q, key, &in, "bitflip/"+region, fmt.Sprintf("bit %d of %d-byte packet", i, len(pkt)))
			}
			c.Count("mut.bitflip", int64(len(pkt)*8))
			// (b) every truncation length
			for n := 0; n < len(pkt); n++ {
				cls := "aligned"
				switch {
				case n < 24:
					cls = "lt24"
				case n == 24:
					cls = "eq24"
				case (n-24)%16 != 0:
					cls = "unaligned"
				}
				c04expectRefused(c, idx, pkt[:n], key, nil, "truncate/"+cls, fmt.Sprintf("first %d of %d bytes", n, len(pkt)))
			}
			c.Count("mut.truncate", int64(len(pkt)))
			// (c) re-keying
			other := rbytes(r, 256)
			rk := mtp.Seal(other, in, 8, pad) // other key, its own id
			c04expectRefused(c, idx, rk, key, nil, "rekey/other-key-other-id", "")
			rk2 := append(append([]byte{}, mtp.AuthKeyID(key)...), rk[8:]...) // other key, right id
			c04expectRefused(c, idx, rk2, key, nil, "rekey/other-key-right-id", "")
			rk3 := append(append([]byte{}, mtp.AuthKeyID(other)...), pkt[8:]...) // right key, other id
			c04expectRefused(c, idx, rk3, key, nil, "rekey/right-key-other-id", "")
			// (c') the alterations composed: every short prefix (and every 16th longer one) of the re-keyed packets,
			// and prefixes of the original whose key id has one bit flipped
			flipped := append([]byte{}, pkt...)
			flipped[r.Intn(8)] ^= 1 << uint(r.Intn(8))
			for _, base := range [][]byte{rk, rk3, flipped} {
				for n := 0; n < len(base); n++ {
					if n > 72 && n%16 != 0 && n != len(base)-1 {
						continue
					}
					cls := "ge24"
					if n < 24 {
						cls = "lt24"
					}
					c04expectRefused(c, idx, base[:n], key, nil, "truncate+key_id/"+cls, fmt.Sprintf("first %d bytes of a packet carrying another key id", n))
				}
			}
			// (d) block-aligned garbage under the right key id
			for g := 0; g < 8; g++ {
				garbage := append(append([]byte{}, pkt[:24]...), rbytes(r, 16*(1+r.Intn(8)))...)
				c04expectRefused(c, idx, garbage, key, nil, "garbage/aligned", "")
				g2 := append(append([]byte{}, pkt[:8]...), rbytes(r, 16+16*(1+r.Intn(8)))...)
				c04expectRefused(c, idx, g2, key, nil, "garbage/aligned+msgkey", "")
			}
			// (e) client parity under the right key
			for _, par := range []int64{0, 2} {
				e := in
				e.MsgID = (in.MsgID &^ 3) | par
				c04expectRefused(c, idx, mtp.Seal(key, e, 8, pad), key, nil, fmt.Sprintf("parity/%d", par), "")
			}
			// (f) attacker holding the key: declared lengths
			total := len(in.Body) + len(pad) // bytes after the 32-byte header
			var decl []int64
			decl = append(decl, -1<<31, -1, 1<<31-1, 1<<31-16, 1<<24)
			for d := -33; d <= 33; d++ {
				decl = append(decl, int64(len(in.Body)+d), int64(total+d))
			}
			for _, d64 := range decl {
				if d64 < -1<<31 || d64 > 1<<31-1 {
					continue
				}
				d := int32(d64)
				for variant := 0; variant < 3; variant++ {
					over := func(noPad, padded []byte) []byte {
						switch variant {
						case 0: // over header+declared bytes where that is defined, else all
							if d >= 0 && 32+int(d) <= len(padded) {
								return padded[:32+int(d)]
							}
							return padded
						case 1:
							return noPad
						default:
							return padded
						}
					}
					q := mtp.SealDeclared(key, in, 8, pad, d, over)
					c04declared(c, idx, q, key, in, pad, d)
				}
			}
			// (h) a session that has no auth key yet (key exchange in progress) holds no key any packet could match
			for _, nokey := range [][]byte{nil, {}} {
				c04expectRefused(c, idx, append(append([]byte{}, mtp.AuthKeyID(nil)...), rbytes(r, 16+16*(1+r.Intn(6)))...), nokey, nil, "no-key/key-id-of-the-empty-key", "")
				c04expectRefused(c, idx, append(append([]byte{}, mtp.AuthKeyID(nil)...), pkt[8:]...), nokey, nil, "no-key/key-id-of-the-empty-key", "")
				c04expectRefused(c, idx, pkt, nokey, nil, "no-key/any-packet", "")
			}
			// (g) unencrypted envelope
			c04plain(c, idx, in)
			c.Distinct("packet", blen, p)
			if p < 3 {
				c.Sample(map[string]interface{}{"body_len": blen, "packet_len": len(pkt), "mutations": "every bit flip, every truncation, 3 re-keyings, 16 garbage bodies, 2 parities, declared lengths x3 msg_key choices"})
			}
		}
		idx++
	}
}

// c04expectRefused: the altered packet must be refused. The one acceptance the statement leaves room
// for is a message identical to the one the key holder sealed (MTProto 1.0 does not authenticate the
// padding, so a flip confined to the last block survives with probability 2^-8k, k = data bytes in
// that block); it is counted, not flagged.
func c04expectRefused(c *wk.Ctx, idx int, q, key []byte, orig *mtp.Inner, class, what string) {
	c.Count("evaluations", 1)
	m, err, pan, pm, st := c04try(q, key)
	c.Distinct(class, len(q)%64, what)
	switch {
	case pan:
		c.Viol("C04", idx, "panic/"+class+"/"+st, fmt.Sprintf("%s: %s", what, pm), fmt.Sprintf("%x", q))
	case err == nil:
		if orig != nil && m.Salt == orig.Salt && m.SessionID == orig.Session && m.MsgID == orig.MsgID && m.SeqNo == orig.SeqNo && bytes.Equal(m.Msg, orig.Body) {
			c.Count("c04.accepted_identical_to_sealed", 1)
			return
		}
		c.Viol("C04", idx, "accepted/"+class, fmt.Sprintf("%s: altered packet produced a message different from the sealed one (body %d bytes)", what, len(m.Msg)), fmt.Sprintf("%x", q))
	}
}

func c04declared(c *wk.Ctx, idx int, q, key []byte, in mtp.Inner, pad []byte, d int32) {
	c.Count("evaluations", 1)
	c.Count("mut.declared", 1)
	m, err, pan, pm, st := c04try(q, key)
	total := len(in.Body) + len(pad)
	inside := d >= 0 && int(d) <= total
	rel := "inside"
	if d < 0 {
		rel = "negative"
	} else if !inside {
		rel = "beyond"
	}
	c.Distinct("declared", rel, int64(d)-int64(len(in.Body)))
	switch {
	case pan:
		c.Viol("C04", idx, "panic/declared-"+rel+"/"+st, fmt.Sprintf("declared length %d, %d bytes after the header: %s", d, total, pm), fmt.Sprintf("%x", q))
	case err != nil:
		return // refusal is always allowed
	case !inside:
		c.Viol("C04", idx, "accepted/declared-"+rel, fmt.Sprintf("declared length %d with only %d bytes after the header yielded a message", d, total), fmt.Sprintf("%x", q))
	default:
		all := append(append([]byte{}, in.Body...), pad...)
		// acceptance demands: msg_key = SHA1(header+declared bytes) and the message is exactly those bytes
		plainHdr := make([]byte, 32)
		binary.LittleEndian.PutUint64(plainHdr[0:], uint64(in.Salt))
		binary.LittleEndian.PutUint64(plainHdr[8:], uint64(in.Session))
		binary.LittleEndian.PutUint64(plainHdr[16:], uint64(in.MsgID))
		binary.LittleEndian.PutUint32(plainHdr[24:], uint32(in.SeqNo))
		binary.LittleEndian.PutUint32(plainHdr[28:], uint32(d))
		wantKey := mtp.MsgKey(append(plainHdr, all[:d]...))
		if !bytes.Equal(wantKey, q[8:24]) {
			c.Viol("C04", idx, "accepted/declared-msgkey-not-over-declared", fmt.Sprintf("declared %d: accepted although msg_key is not the digest of header+declared body", d), fmt.Sprintf("%x", q))
		} else if !bytes.Equal(m.Msg, all[:d]) || m.MsgID != in.MsgID || m.Salt != in.Salt || m.SessionID != in.Session || m.SeqNo != in.SeqNo {
			c.Viol("C04", idx, "accepted/declared-wrong-message", fmt.Sprintf("declared %d: message differs from the sealed bytes", d), fmt.Sprintf("%x", q))
		}
	}
}

func c04plain(c *wk.Ctx, idx int, in mtp.Inner) {
	body := in.Body
	if len(body) > 64 {
		body = body[:64]
	}
	good := mtp.SealPlain(in.MsgID, body)
	try := func(q []byte, class string, mustRefuse bool) {
		c.Count("evaluations", 1)
		var m *messages.Unencrypted
		var err error
		pan, pm, st := wk.Guard(func() { m, err = messages.DeserializeUnencrypted(q) })
		c.Distinct("plain", class, len(q))
		if pan {
			c.Viol("C04", idx, "panic/plain-"+class+"/"+st, pm, fmt.Sprintf("%x", q))
			return
		}
		if err == nil && mustRefuse {
			c.Viol("C04", idx, "accepted/plain-"+class, fmt.Sprintf("got message of %d bytes", len(m.Msg)), fmt.Sprintf("%x", q))
		}
	}
	for n := 0; n < len(good); n++ {
		try(good[:n], "truncated", true)
	}
	for _, d := range []int64{-1 << 31, -1, int64(len(body)) - 1, int64(len(body)) + 1, 1<<31 - 1, 1 << 24} {
		q := append([]byte{}, good...)
		binary.LittleEndian.PutUint32(q[16:], uint32(int32(d)))
		try(q, "length", true)
	}
	for _, par := range []int64{0, 2} {
		try(mtp.SealPlain((in.MsgID&^3)|par, body), "parity", true)
	}
}
