package wl

import (
	"bytes"
	"compress/gzip"
	"encoding/binary"
	"fmt"
	"github.com/xelaj/mtproto/internal/mtproto/objects"
	ts "github.com/xelaj/mtproto/zverif/ref/tlschema"
	"io"
	"math/rand"
	"os"
	"reflect"
	"runtime"
	"runtime/metrics"
	"strings"
	"sync/atomic"
	"syscall"
	"time"

	"github.com/xelaj/mtproto/internal/encoding/tl"
	"github.com/xelaj/mtproto/telegram"
	"github.com/xelaj/mtproto/zverif/bridge"
	"github.com/xelaj/mtproto/zverif/core"
	"github.com/xelaj/mtproto/zverif/gen"
	"github.com/xelaj/mtproto/zverif/wk"
)

func init() { wk.Register("c15", c15) }

const (
	c15AllocConst  = 1 << 20 // 1 MiB
	c15AllocPerIn  = 4096    // bytes of allocation allowed per input byte
	c15CPULimitNs  = 5e9     // 5 s of thread CPU per decode call ...
	c15CPUPerInNs  = 25000   // ... plus 25 us per input byte (see DESIGN 13: a legitimate 1.6 MB input of 512 gzip layers costs 4-5 us per byte, and twice that on a loaded machine)
	c15HangCPUSecs = 60      // process CPU consumed by one case before the in-process monitor gives up
)

type c15mon struct {
	sample  []metrics.Sample
	caseSeq int64 // incremented at each call start
	inLen   int64 // length of the input of the running call
	inCall  int32 // 1 while a decode call is running (the no-termination monitor only judges time spent inside calls)
	c       *wk.Ctx
}

func (m *c15mon) allocs() uint64 {
	metrics.Read(m.sample)
	return m.sample[0].Value.Uint64()
}

func threadCPU() int64 {
	var ru syscall.Rusage
	syscall.Getrusage(1 /* RUSAGE_THREAD */, &ru)
	return ru.Utime.Nano() + ru.Stime.Nano()
}

func procCPU() int64 {
	var ru syscall.Rusage
	syscall.Getrusage(0, &ru)
	return ru.Utime.Nano() + ru.Stime.Nano()
}

var c15Hints = [][]reflect.Type{
	nil,
	{reflect.TypeOf([]int32{})},
	{reflect.TypeOf([]int64{})},
	{reflect.TypeOf([]*telegram.SecureValue{})},
	{reflect.TypeOf([]telegram.User{})},
	{reflect.TypeOf([]string{})},
	{reflect.TypeOf([][]byte{})},
	{reflect.TypeOf([]bool{})},
	{reflect.TypeOf([]float64{})},
	{reflect.TypeOf([]telegram.StorageFileType{})},
}

var c15HintNames = []string{"none", "[]int32", "[]int64", "[]*SecureValue", "[]User", "[]string", "[][]byte", "[]bool", "[]float64", "[]enum"}

func containsWord(b []byte, w uint32) bool {
	for i := 0; i+4 <= len(b); i += 4 {
		if binary.LittleEndian.Uint32(b[i:]) == w {
			return true
		}
	}
	// unaligned occurrences matter too (after strings)
	var pat [4]byte
	binary.LittleEndian.PutUint32(pat[:], w)
	return bytes.Contains(b, pat[:])
}

// exactAllocs: runtime.ReadMemStats stops the world and flushes every per-P cache, so TotalAlloc is exact.
func exactAllocs() uint64 {
	var ms runtime.MemStats
	runtime.ReadMemStats(&ms)
	return ms.TotalAlloc
}

// run one decode call under all monitors. Allocation is screened with the cheap runtime/metrics counter
// (which lags by whatever the per-P caches hold, up to ~1 MiB, and jumps when a GC cycle flushes them);
// a call whose screened delta exceeds a quarter of the bound - and every valid seed - is re-run between
// two exact readings, and only the exact figure decides.
func (m *c15mon) call(idx int, in []byte, entry string, class string, f func() error) {
	c := m.c
	atomic.AddInt64(&m.caseSeq, 1)
	c.Count("evaluations", 1)
	a0 := m.allocs()
	t0 := threadCPU()
	var err error
	atomic.StoreInt64(&m.inLen, int64(len(in)))
	atomic.StoreInt32(&m.inCall, 1)
	pan, pm, st := wk.Guard(func() { err = f() })
	atomic.StoreInt32(&m.inCall, 0)
	t1 := threadCPU()
	a1 := m.allocs()
	_ = err
	if pan {
		c.Viol("C15", idx, "panic/"+entry+"/"+st+"/"+panicClass(pm), fmt.Sprintf("%s on %d bytes (%s): %s", entry, len(in), class, wk.Short(pm, 300)), fmt.Sprintf("%x", clipIn(in)))
		return
	}
	// 5 s flat; the per-byte allowance is granted only to inputs that carry gzip_packed, whose (exempt) expansion is
	// repeated by every nesting layer up to the decoder's limit: without it the work must not grow with anything but
	// the input walked once (a quadratic re-reading of the rest of the message per object showed only here)
	cpuBound := int64(c15CPULimitNs)
	if containsWord(in, 0x3072cfa1) {
		cpuBound += int64(c15CPUPerInNs) * int64(len(in))
		c.Max("max.cpu_ms_with_gzip", (t1-t0)/1e6)
	} else {
		c.Max("max.cpu_ms_without_gzip", (t1-t0)/1e6)
	}
	c.Max("max.cpu_permille_of_bound", (t1-t0)*1000/cpuBound)
	if t1-t0 > cpuBound {
		c.Viol("C15", idx, "cpu/"+entry, fmt.Sprintf("%s on %d bytes (%s) used %.1f s of CPU", entry, len(in), class, float64(t1-t0)/1e9), fmt.Sprintf("%x", clipIn(in)))
	}
	delta := int64(a1 - a0)
	bound := int64(c15AllocConst + c15AllocPerIn*len(in))
	// gzip expansion of a packed object is exempt — but only expansion that actually happens: the harness inflates
	// every gzip_packed payload it can find in the input itself (bounded) and allows a multiple of what comes out;
	// memory reserved on the strength of a size the input merely ANNOUNCES is not expansion
	if containsWord(in, 0x3072cfa1) {
		exp := gzipExpansion(in, 0)
		bound += 16 * exp
		c.Count("alloc.gzip_inputs", 1)
	}
	if delta > bound/4 || class == "valid" {
		e0 := exactAllocs()
		wk.Guard(func() { f() })
		delta = int64(exactAllocs() - e0)
		c.Count("alloc.exact_measurements", 1)
		if delta > bound {
			c.Viol("C15", idx, "alloc/"+entry+"/"+class, fmt.Sprintf("%s on %d input bytes (%s) allocated %d bytes (bound %d)", entry, len(in), class, delta, bound), fmt.Sprintf("%x", clipIn(in)))
		}
		if class == "valid" {
			c.Max("max.valid_alloc_bytes", delta)
			c.Max("max.valid_alloc_permille_of_bound", delta*1000/bound)
			c.Max("max.valid_cpu_us", (t1-t0)/1000)
		} else {
			c.Max("max.mutated_alloc_bytes_exact_nogzip", delta)
			c.Max("max.mutated_alloc_permille_of_bound", delta*1000/bound)
		}
	}
}

// panicClass keeps the generic part of a panic message (no type names, no numbers).
func panicClass(pm string) string {
	pm = sanitizeMsg(pm)
	for _, cut := range []string{": value of type", " of type ", "[", "NN"} {
		if i := strings.Index(pm, cut); i > 0 {
			pm = pm[:i]
		}
	}
	return wk.Short(pm, 48)
}

func clipIn(b []byte) []byte {
	if len(b) > 2048 {
		return b[:2048]
	}
	return b
}

func sanitizeMsg(s string) string {
	out := make([]byte, 0, len(s))
	for i := 0; i < len(s); i++ {
		ch := s[i]
		if ch >= '0' && ch <= '9' {
			ch = 'N'
		}
		out = append(out, ch)
	}
	return string(out)
}

func c15(c *wk.Ctx) {
	runtime.LockOSThread()
	// keep a runaway allocation from taking the machine down: beyond this the runtime aborts the child
	// ("fatal error: runtime: out of memory"), which the parent reports as a violation with the input
	syscall.Setrlimit(syscall.RLIMIT_AS, &syscall.Rlimit{Cur: 6 << 30, Max: 6 << 30})
	u := universe()
	m := &c15mon{sample: []metrics.Sample{{Name: "/gc/heap/allocs:bytes"}}, c: c}
	// in-process non-termination monitor: decided on CPU consumed by one call, not on wall time
	go func() {
		last := int64(-1)
		var cpuAtStart int64
		for {
			time.Sleep(500 * time.Millisecond)
			seq := atomic.LoadInt64(&m.caseSeq)
			if seq != last || atomic.LoadInt32(&m.inCall) == 0 {
				last = seq
				cpuAtStart = procCPU()
				continue
			}
			if procCPU()-cpuAtStart > c15HangCPUSecs*1e9+100000*atomic.LoadInt64(&m.inLen) { // process CPU (all threads, GC included): 60 s + 100 us per input byte
				c.Log.Emit(core.Event{Ev: "viol", Prop: "C15", Sig: "no-termination", Detail: fmt.Sprintf("one decode call consumed more than %d s of CPU without returning (see the .cur file for the input)", c15HangCPUSecs)})
				os.Exit(4)
			}
		}
	}()
	var structIDs, enumIDs []uint32
	for id, t := range bridge.Objects {
		if t.Kind() == reflect.Uint32 {
			enumIDs = append(enumIDs, id)
		} else {
			structIDs = append(structIDs, id)
		}
	}
	sortU32(structIDs)
	sortU32(enumIDs)
	types := u.Types
	idx := 0
	// cold start (every shard, before anything else has been decoded in this process): the first decodes happen in
	// eight goroutines at once, as in an application that starts several clients. Inputs come from the reference
	// serialiser, so the library has not even encoded these types yet.
	c.Begin(idx, "cold concurrent decode")
	c15cold(c, idx)
	idx++
	perType := c.Pick(2, 12)
	for _, t := range types {
		for k := 0; k < perType; k++ {
			if c.Mine(idx) {
				r := c.Rand(idx)
				g := &gen.G{U: u, R: r, MaxDepth: 1 + k%3, ForceStrLen: -1, ImplPick: -1, Simple: k == 0}
				var v reflect.Value
				if pan, _, _ := wk.Guard(func() { v = g.Object(t, nil, 0) }); pan {
					idx++
					continue
				}
				seed, err := tl.Marshal(v.Interface())
				if err == nil {
					c.Begin(idx, fmt.Sprintf("seed %v %x", t, clipIn(seed)))
					c15seed(c, m, idx, r, t, seed, structIDs, enumIDs)
				}
			}
			idx++
		}
	}
	// reference-built seeds for the hand-written decoders
	for k := 0; k < c.Pick(40, 400); k++ {
		if c.Mine(idx) {
			r := c.Rand(idx)
			g := &gen.G{U: u, R: r, MaxDepth: 2, ForceStrLen: -1, ImplPick: -1}
			t := types[r.Intn(len(types))]
			var inner []byte
			if pan, _, _ := wk.Guard(func() { inner, _ = tl.Marshal(g.Object(t, nil, 0).Interface()) }); pan || inner == nil {
				idx++
				continue
			}
			var seed []byte
			kind := []string{"rpc_result", "container", "gzip", "rpc_result_gzip", "container_nested"}[k%5]
			switch kind {
			case "rpc_result":
				seed = append(le32(0xf35c6d01), le64(r.Uint64())...)
				seed = append(seed, inner...)
			case "container", "container_nested":
				seed = le32(0x73f1f8dc)
				n := 1 + r.Intn(3)
				seed = append(seed, le32(uint32(n))...)
				for i := 0; i < n; i++ {
					body := inner
					if kind == "container_nested" && i == 0 {
						body = append(append(le32(0x73f1f8dc), le32(1)...), append(append(le64(5), le32(1)...), append(le32(uint32(len(inner))), inner...)...)...)
					}
					seed = append(seed, le64(r.Uint64()|1)...)
					seed = append(seed, le32(uint32(r.Intn(100)))...)
					seed = append(seed, le32(uint32(len(body)))...)
					seed = append(seed, body...)
				}
			case "gzip", "rpc_result_gzip":
				var z bytes.Buffer
				zw := gzip.NewWriter(&z)
				zw.Write(inner)
				zw.Close()
				seed = append(le32(0x3072cfa1), tlBytes(z.Bytes())...)
				if kind == "rpc_result_gzip" {
					seed = append(append(le32(0xf35c6d01), le64(r.Uint64())...), seed...)
				}
			}
			c.Begin(idx, fmt.Sprintf("seed %s %x", kind, clipIn(seed)))
			c15seed(c, m, idx, r, nil, seed, structIDs, enumIDs)
		}
		idx++
	}
	// deep nesting: recursion depth grows with the input (12 bytes per level of a self-referential type); a fatal
	// stack overflow cannot be recovered, so the child's death is the observation
	for _, depth := range []int{1000, 50000, c.Pick(1200000, 1500000)} {
		for variant := 0; variant < 3; variant++ {
			if c.Mine(idx) {
				var in []byte
				name := ""
				switch variant {
				case 0: // inputPeerUserFromMessage#17bae2e6 peer:InputPeer msg_id:int user_id:int, nested in its first field
					name = "object-in-first-field"
					for i := 0; i < depth; i++ {
						in = append(in, le32(0x17bae2e6)...)
					}
					in = append(in, le32(0x7f3b18ea)...)
					for i := 0; i < depth; i++ {
						in = append(in, le32(1)...)
						in = append(in, le32(2)...)
					}
				case 1: // rpc_result inside rpc_result ... (result:Object)
					name = "rpc_result-chain"
					for i := 0; i < depth; i++ {
						in = append(in, le32(0xf35c6d01)...)
						in = append(in, le64(uint64(i))...)
					}
					in = append(in, le32(0x997275b5)...)
				case 2: // textBold#6724abc4 text:RichText nested (page rich text)
					name = "richtext-chain"
					for i := 0; i < depth; i++ {
						in = append(in, le32(0x6724abc4)...)
					}
					in = append(in, le32(0xdc3d824f)...) // textEmpty
				}
				c.Begin(idx, fmt.Sprintf("deep %s depth=%d bytes=%d", name, depth, len(in)))
				m.call(idx, in, "DecodeUnknownObject", "deep-nesting", func() error { _, e := tl.DecodeUnknownObject(in); return e })
				c.Distinct("deep", name, depth)
			}
			idx++
		}
	}
	// gzip inside gzip inside gzip ...: every layer is a fresh decoder
	for _, depth := range []int{10, 500, c.Pick(3000, 20000)} {
		if c.Mine(idx) {
			inner := le32(0x997275b5)
			for i := 0; i < depth; i++ {
				var z bytes.Buffer
				zw, _ := gzip.NewWriterLevel(&z, gzip.NoCompression)
				zw.Write(inner)
				zw.Close()
				inner = append(le32(0x3072cfa1), tlBytes(z.Bytes())...)
				if len(inner) > 12<<20 {
					break
				}
			}
			c.Begin(idx, fmt.Sprintf("deep gzip depth=%d bytes=%d", depth, len(inner)))
			m.call(idx, inner, "DecodeUnknownObject", "deep-gzip", func() error { _, e := tl.DecodeUnknownObject(inner); return e })
			c.Distinct("deep-gzip", depth)
		}
		idx++
	}
	// the two nesting mechanisms composed: chains of objects (each shorter than any depth limit) whose innermost
	// object is a gzip_packed holding the next chain, for many layers
	for _, sh := range [][2]int{{2, 511}, {8, 300}, {300, 100}, {c.Pick(3000, 12000), 500}} {
		if c.Mine(idx) {
			layers, per := sh[0], sh[1]
			inner := le32(0x997275b5)
			chain := make([]byte, 0, per*12)
			for i := 0; i < per; i++ {
				chain = append(chain, le32(0xf35c6d01)...)
				chain = append(chain, le64(uint64(7))...)
			}
			for l := 0; l < layers; l++ {
				var z bytes.Buffer
				zw, _ := gzip.NewWriterLevel(&z, gzip.BestSpeed)
				zw.Write(inner)
				zw.Close()
				inner = append(append(append([]byte{}, chain...), le32(0x3072cfa1)...), tlBytes(z.Bytes())...)
				if len(inner) > 12<<20 {
					break
				}
			}
			c.Begin(idx, fmt.Sprintf("deep mixed layers=%d objects-per-layer=%d bytes=%d", layers, per, len(inner)))
			m.call(idx, inner, "DecodeUnknownObject", "deep-mixed", func() error { _, e := tl.DecodeUnknownObject(inner); return e })
			c.Distinct("deep-mixed", layers, per)
		}
		idx++
	}
	c15userTypes(c, m, &idx)
	// counts whose product with an element or header size wraps around 2^32 (or 2^31) to something small: a bound
	// computed in 32-bit arithmetic lets them through
	for _, cnt := range c15wrapCounts {
		if c.Mine(idx) {
			c.Begin(idx, fmt.Sprintf("wrapping count %#x", cnt))
			// msg_container with one well-formed item behind the count
			in := append(le32(0x73f1f8dc), le32(cnt)...)
			in = append(in, le64(5)...)
			in = append(in, le32(1)...)
			in = append(in, le32(20)...)
			in = append(in, le32(0x347773c5)...)
			in = append(in, le64(1)...)
			in = append(in, le64(2)...)
			m.call(idx, in, "DecodeUnknownObject", "wrapping-count-container", func() error { _, e := tl.DecodeUnknownObject(in); return e })
			// a vector with that count, alone and as an rpc_result, under every prediction
			v := append(le32(0x1cb5c415), le32(cnt)...)
			v = append(v, make([]byte, 64)...)
			rr := append(append(le32(0xf35c6d01), le64(9)...), v...)
			for h := 1; h < len(c15Hints); h++ {
				m.call(idx, v, "DecodeUnknownObject+hints", "wrapping-count-vector", func() error { _, e := tl.DecodeUnknownObject(v, c15Hints[h]...); return e })
				m.call(idx, rr, "DecodeUnknownObject+hints", "wrapping-count-vector", func() error { _, e := tl.DecodeUnknownObject(rr, c15Hints[h]...); return e })
			}
			// future_salts: a bare vector inside a service object
			fs := append(append(le32(0xae500895), le64(1)...), le32(2)...)
			fs = append(fs, le32(cnt)...)
			fs = append(fs, make([]byte, 48)...)
			m.call(idx, fs, "DecodeUnknownObject", "wrapping-count-bare-vector", func() error { _, e := tl.DecodeUnknownObject(fs); return e })
			c.Distinct("wrapping-count", cnt)
		}
		idx++
	}
	// many small objects in one input (what a busy server sends): cost must stay proportional to the input, not to
	// the input times the number of objects in it
	for _, n := range []int{2000, c.Pick(8000, 60000)} {
		for variant := 0; variant < 3; variant++ {
			if c.Mine(idx) {
				var in []byte
				name := ""
				switch variant {
				case 0: // msg_container of n pongs
					name = "container-of-pongs"
					in = append(le32(0x73f1f8dc), le32(uint32(n))...)
					for i := 0; i < n; i++ {
						in = append(in, le64(uint64(i)<<2|1)...)
						in = append(in, le32(uint32(2*i+1))...)
						in = append(in, le32(20)...)
						in = append(in, le32(0x347773c5)...)
						in = append(in, le64(uint64(i))...)
						in = append(in, le64(uint64(i)*7)...)
					}
				case 1: // rpc_result carrying a vector of n small objects, decoded with the caller's prediction
					name = "vector-of-objects"
					in = append(le32(0x1cb5c415), le32(uint32(n))...)
					for i := 0; i < n; i++ {
						in = append(in, le32(0xa384b779)...) // receivedNotifyMessage id:int flags:int
						in = append(in, le32(uint32(i))...)
						in = append(in, le32(uint32(i^0x55))...)
					}
				case 2: // a vector of n field-less objects inside an object
					name = "object-with-long-vector"
					in = append(le32(0xf35c6d01), le64(7)...) // rpc_result req_msg_id result
					in = append(in, le32(0x1cb5c415)...)
					in = append(in, le32(uint32(n))...)
					for i := 0; i < n; i++ {
						in = append(in, le32(0xa384b779)...)
						in = append(in, le32(uint32(i))...)
						in = append(in, le32(1)...)
					}
				}
				c.Begin(idx, fmt.Sprintf("many-small %s n=%d bytes=%d", name, n, len(in)))
				hint := reflect.TypeOf([]*telegram.ReceivedNotifyMessage{})
				m.call(idx, in, "DecodeUnknownObject+hints", "many-small-objects", func() error { _, e := tl.DecodeUnknownObject(in, hint); return e })
				m.call(idx, in, "DecodeUnknownObject", "many-small-objects", func() error { _, e := tl.DecodeUnknownObject(in); return e })
				c.Distinct("many-small", name, n)
			}
			idx++
		}
	}
	// uniform random bytes as a floor
	for k := 0; k < c.Pick(20000, 600000); k++ {
		if c.Mine(idx) {
			r := c.Rand(idx)
			in := rbytes(r, r.Intn(64))
			if r.Intn(2) == 0 && len(in) >= 4 {
				binary.LittleEndian.PutUint32(in, structIDs[r.Intn(len(structIDs))])
			}
			c.Begin(idx, fmt.Sprintf("random %x", in))
			m.call(idx, in, "DecodeUnknownObject", "random", func() error { _, e := tl.DecodeUnknownObject(in); return e })
			c.Distinct("random", len(in), k%1024)
		}
		idx++
	}
}

// c15wrapCounts: k*2^28+j, k*2^29+j, k*2^30+j and ceil(2^32/size)+j for the element and header sizes in use.
var c15wrapCounts = func() []uint32 {
	var out []uint32
	for _, sh := range []uint{28, 29, 30, 31} {
		for k := uint32(1); k < 4 && uint64(k)<<sh < 1<<32; k++ {
			for j := uint32(0); j < 3; j++ {
				out = append(out, k<<sh+j)
			}
		}
	}
	for _, size := range []uint64{4, 8, 12, 16, 20, 24, 32} {
		for j := uint64(0); j < 3; j++ {
			out = append(out, uint32((1<<32)/size+1+j), uint32((1<<31)/size+1+j))
		}
	}
	return out
}()

func c15cold(c *wk.Ctx, idx int) {
	if err := loadSchemas(); err != nil {
		c.Log.Emit(coreInconclusive(err.Error()))
		return
	}
	r := rand.New(rand.NewSource(c.Seed*1000 + int64(c.Shard)))
	costs := allSchema.ComputeCosts()
	type item struct {
		name string
		b    []byte
	}
	sets := make([][]item, 8)
	for g := range sets {
		for len(sets[g]) < 60 {
			d := apiSchema.Defs[r.Intn(len(apiSchema.Defs))]
			if len(d.Generics) > 0 {
				continue
			}
			v := allSchema.Gen(d, &ts.GenOpts{R: r, MaxDepth: 2, Costs: costs, ForceStrLen: -1}, 0)
			b, err := ts.Serialize(v)
			if err != nil {
				continue
			}
			sets[g] = append(sets[g], item{d.Name, b})
		}
	}
	res := concurrently(8, c.Seed, func(g int, _ *rand.Rand) string {
		for _, it := range sets[g] {
			if _, err := tl.DecodeUnknownObject(it.b); err != nil {
				return fmt.Sprintf("error: a valid %s is refused while seven other goroutines decode for the first time: %v", it.name, err)
			}
		}
		return ""
	})
	c.Count("evaluations", 8*60)
	c.Count("cold_concurrent_decodes", 8*60)
	for _, m := range res {
		if m != "" {
			c.Viol("C15", idx, "cold-concurrent/"+strings.SplitN(m, ":", 2)[0], m, nil)
		}
	}
}

func le32(v uint32) []byte { b := make([]byte, 4); binary.LittleEndian.PutUint32(b, v); return b }
func le64(v uint64) []byte { b := make([]byte, 8); binary.LittleEndian.PutUint64(b, v); return b }

func sortU32(s []uint32) {
	for i := 1; i < len(s); i++ {
		for j := i; j > 0 && s[j] < s[j-1]; j-- {
			s[j], s[j-1] = s[j-1], s[j]
		}
	}
}

func c15seed(c *wk.Ctx, m *c15mon, idx int, r *rand.Rand, t reflect.Type, seed []byte, structIDs, enumIDs []uint32) {
	tname := "hand"
	if t != nil {
		tname = t.String()
	}
	try := func(in []byte, class string, hintSel int) {
		in = in[:len(in):len(in)] // nothing behind the input: capacity == length
		// the receive loop looks at every body through UnpackGzip before it decodes anything
		m.call(idx, in, "UnpackGzip", class, func() error { objects.UnpackGzip(in); return nil })
		m.call(idx, in, "DecodeUnknownObject", class, func() error { _, e := tl.DecodeUnknownObject(in); return e })
		if t != nil {
			m.call(idx, in, "Decode", class, func() error {
				var target reflect.Value
				if t.Kind() == reflect.Ptr {
					target = reflect.New(t.Elem())
				} else {
					target = reflect.New(t)
				}
				return tl.Decode(in, target.Interface())
			})
		}
		if hintSel > 0 {
			h := c15Hints[hintSel%len(c15Hints)]
			if h != nil {
				m.call(idx, in, "DecodeUnknownObject+hints", class, func() error { _, e := tl.DecodeUnknownObject(in, h...); return e })
			}
		}
	}
	try(seed, "valid", 0)
	// (1) truncations: every word boundary and odd cuts
	for n := 0; n < len(seed); n++ {
		if n%4 == 0 || n < 24 || n > len(seed)-8 || r.Intn(8) == 0 {
			try(seed[:n], "truncate", 0)
			c.Distinct(tname, "trunc", n)
		}
	}
	// (2) word replacement
	words := len(seed) / 4
	limit := words
	if limit > 28 {
		limit = 28
	}
	repl := func() []struct {
		class string
		v     uint32
	} {
		return []struct {
			class string
			v     uint32
		}{
			{"struct-id", structIDs[r.Intn(len(structIDs))]}, {"struct-id", structIDs[r.Intn(len(structIDs))]}, {"enum-id", enumIDs[r.Intn(len(enumIDs))]},
			{"vector-id", 0x1cb5c415}, {"bool", 0x997275b5}, {"bool", 0xbc799737}, {"null", 0x56730bcc}, {"gzip-id", 0x3072cfa1}, {"container-id", 0x73f1f8dc},
			{"rpc_result-id", 0xf35c6d01}, {"zero", 0}, {"one", 1}, {"minus1", 0xffffffff}, {"maxint", 0x7fffffff}, {"minint", 0x80000000}, {"fe-header", 0xfffffffe},
			{"fe-len", 0x00fffffe}, {"big-count", 0x10000000}, {"count-64k", 0x00010000}, {"flags-all", 0xffffffff},
			{"wrapping-count", c15wrapCounts[r.Intn(len(c15wrapCounts))]}, {"wrapping-count", c15wrapCounts[r.Intn(len(c15wrapCounts))]},
		}
	}
	for wi := 0; wi < words; wi++ {
		if wi >= limit && r.Intn(words) > 8 {
			continue
		}
		for _, rp := range repl() {
			in := append([]byte{}, seed...)
			binary.LittleEndian.PutUint32(in[wi*4:], rp.v)
			hs := 0
			if wi == 0 && rp.class == "vector-id" {
				// a vector where an object is expected: exercise every hint kind
				for h := 1; h < len(c15Hints); h++ {
					m.call(idx, in, "DecodeUnknownObject+hints", "vector-with-hint-"+c15HintNames[h], func() error { _, e := tl.DecodeUnknownObject(in, c15Hints[h]...); return e })
					// and the count word set to huge values under this hint
					for _, cnt := range []uint32{0xffffffff, 0x7fffffff, 0x80000000, 0x10000000, 0x00100000} {
						if len(in) >= 8 {
							in2 := append([]byte{}, in...)
							binary.LittleEndian.PutUint32(in2[4:], cnt)
							m.call(idx, in2, "DecodeUnknownObject+hints", "vector-count-with-hint-"+c15HintNames[h], func() error { _, e := tl.DecodeUnknownObject(in2, c15Hints[h]...); return e })
						}
					}
				}
			}
			if r.Intn(6) == 0 {
				hs = 1 + r.Intn(len(c15Hints)-1)
			}
			try(in, "word-"+rp.class, hs)
			wcap := wi
			if wcap > 40 {
				wcap = 40
			}
			c.Distinct(tname, wcap, rp.class)
		}
	}
	// (3) splices
	for k := 0; k < 4; k++ {
		cut := 4 * r.Intn(words+1)
		other := rbytes(r, 4*r.Intn(12))
		in := append(append([]byte{}, seed[:cut]...), other...)
		try(in, "splice", 0)
		in2 := append(append([]byte{}, seed[:cut]...), seed...)
		try(in2, "splice-self", 0)
		c.Distinct(tname, "splice", k)
	}
	if idx%997 == 0 {
		c.Sample(map[string]interface{}{"seed_type": tname, "seed_hex": fmt.Sprintf("%x", clipIn(seed)), "mutations": "truncations, 20 word replacements per position, splices; entry points DecodeUnknownObject / Decode(named) / +hints"})
	}
}

// gzipExpansion returns how many bytes the gzip_packed objects found in b really inflate to (nested ones
// included, bounded in depth and volume).
func gzipExpansion(b []byte, depth int) int64 {
	if depth > 6 {
		return 0
	}
	var total int64
	pat := []byte{0xa1, 0xcf, 0x72, 0x30}
	for off := 0; off+4 <= len(b) && total < 1<<28; {
		i := bytes.Index(b[off:], pat)
		if i < 0 {
			break
		}
		off += i + 4
		payload, ok := tlString(b[off:])
		if !ok {
			// a declared length beyond the input: the decoder cannot inflate what is not there
			continue
		}
		zr, err := gzip.NewReader(strings.NewReader(payload))
		if err != nil {
			continue
		}
		var out bytes.Buffer
		n, _ := io.Copy(&out, io.LimitReader(zr, 1<<27))
		total += n
		if n > 0 && n < 1<<24 {
			total += gzipExpansion(out.Bytes(), depth+1)
		}
	}
	return total
}
