package wl

import (
	"fmt"
	"math/rand"
	"reflect"
	"runtime"
	"sort"
	"sync"
	"sync/atomic"
	"time"

	"github.com/anishathalye/porcupine"

	"github.com/xelaj/mtproto/internal/encoding/tl"
	"github.com/xelaj/mtproto/internal/utils"

	"github.com/xelaj/mtproto/zverif/wk"
)

func init() { wk.Register("c09lin", c09lin) }

// c09lin: linearizability of the two dispatch tables (request id -> waiting caller, request id -> decoder hints)
// as the client uses them: every key is added ONCE by its owner (a sender), looked up and deleted by OTHER
// goroutines (the receive loop delivering a result, the salt-rotation handler, the sender's own clean-up) while
// further owners add further keys. The recorded history (call and return stamps from one atomic counter, at the
// boundary of the table type) is checked per key by porcupine against a one-register model:
//
//	Add(v): state := v      Delete: state := absent (its result is not judged: the client ignores it)
//	Get -> must return the current state (the value added, or "absent")
//
// A Get that overlaps an Add or a Delete may see either side; one that begins after the Add returned and ends
// before any Delete began must find exactly the owner's value; one that begins after a Delete returned must
// find nothing (a waiter delivered to twice, or a result with nobody to take it, are the C09 refutations).
// Has and Keys are called for contention only; nothing in the client depends on their results.
type linIn struct {
	Op  uint8 // 0 add, 1 get, 2 delete
	Key int
	Val int
}

type linTable interface {
	add(key, val int)
	get(key int) int // -1: absent, -2: a value nobody added
	del(key int)
	has(key int)
	keys()
}

type chanTable struct {
	t    *utils.SyncIntObjectChan
	vals []chan tl.Object
	ids  map[chan tl.Object]int
}

func (c *chanTable) add(k, v int) { c.t.Add(k, c.vals[v]) }
func (c *chanTable) get(k int) int {
	ch, ok := c.t.Get(k)
	if !ok {
		return -1
	}
	if id, known := c.ids[ch]; known {
		return id
	}
	return -2
}
func (c *chanTable) del(k int) { c.t.Delete(k) }
func (c *chanTable) has(k int) { c.t.Has(k) }
func (c *chanTable) keys()     { c.t.Keys() }

type hintTable struct {
	t    *utils.SyncIntReflectTypes
	vals [][]reflect.Type
}

func (c *hintTable) add(k, v int) { c.t.Add(k, c.vals[v]) }
func (c *hintTable) get(k int) int {
	s, ok := c.t.Get(k)
	if !ok {
		return -1
	}
	if len(s) == 0 {
		return -2
	}
	for i := range c.vals {
		if &c.vals[i][0] == &s[0] && len(s) == len(c.vals[i]) {
			return i
		}
	}
	return -2
}
func (c *hintTable) del(k int) { c.t.Delete(k) }
func (c *hintTable) has(k int) { c.t.Has(k) }
func (c *hintTable) keys()     { c.t.Keys() }

var linModel = porcupine.Model{
	Partition: func(h []porcupine.Operation) [][]porcupine.Operation {
		by := map[int][]porcupine.Operation{}
		var ks []int
		for _, o := range h {
			k := o.Input.(linIn).Key
			if _, ok := by[k]; !ok {
				ks = append(ks, k)
			}
			by[k] = append(by[k], o)
		}
		sort.Ints(ks)
		out := make([][]porcupine.Operation, 0, len(ks))
		for _, k := range ks {
			out = append(out, by[k])
		}
		return out
	},
	Init: func() interface{} { return -1 },
	Step: func(st, in, out interface{}) (bool, interface{}) {
		i := in.(linIn)
		switch i.Op {
		case 0:
			return true, i.Val
		case 2:
			return true, -1
		default:
			return out.(int) == st.(int), st
		}
	},
	Equal: func(a, b interface{}) bool { return a.(int) == b.(int) },
	DescribeOperation: func(in, out interface{}) string {
		i := in.(linIn)
		switch i.Op {
		case 0:
			return fmt.Sprintf("Add(%d,v%d)", i.Key, i.Val)
		case 2:
			return fmt.Sprintf("Delete(%d)", i.Key)
		}
		return fmt.Sprintf("Get(%d)->%d", i.Key, out.(int))
	},
}

// linSelfTest: the checker must accept a legal and refuse an illegal hand-written history (a broken oracle
// must not produce verdicts).
func linSelfTest() error {
	mk := func(c int, in linIn, out int, t0, t1 int64) porcupine.Operation {
		return porcupine.Operation{ClientId: c, Input: in, Output: out, Call: t0, Return: t1}
	}
	good := []porcupine.Operation{
		mk(0, linIn{0, 7, 3}, 0, 1, 2), mk(1, linIn{1, 7, 0}, 3, 3, 4), mk(1, linIn{2, 7, 0}, 0, 5, 8), mk(2, linIn{1, 7, 0}, -1, 6, 7), mk(2, linIn{1, 7, 0}, -1, 9, 10),
	}
	bad := []porcupine.Operation{
		mk(0, linIn{0, 7, 3}, 0, 1, 2), mk(1, linIn{2, 7, 0}, 0, 3, 4), mk(2, linIn{1, 7, 0}, 3, 5, 6),
	}
	bad2 := []porcupine.Operation{mk(0, linIn{0, 7, 3}, 0, 1, 2), mk(2, linIn{1, 7, 0}, -1, 3, 4)}
	if porcupine.CheckOperations(linModel, good) != true {
		return fmt.Errorf("legal history refused")
	}
	if porcupine.CheckOperations(linModel, bad) || porcupine.CheckOperations(linModel, bad2) {
		return fmt.Errorf("illegal history accepted")
	}
	return nil
}

func c09lin(c *wk.Ctx) {
	if err := linSelfTest(); err != nil {
		c.Viol("HARNESS", -1, "lin/selftest", err.Error(), nil)
		return
	}
	n := c.Pick(600, 20000)
	for idx := 0; idx < n; idx++ {
		if !c.Mine(idx) {
			continue
		}
		r := c.Rand(idx)
		owners := 1 + r.Intn(5)
		perOwner := 1 + r.Intn(6)
		others := 1 + r.Intn(4)
		kind := idx % 2
		c.Begin(idx, fmt.Sprintf("lin kind=%d owners=%d per=%d others=%d", kind, owners, perOwner, others))
		nkeys := owners * perOwner
		var tbl linTable
		if kind == 0 {
			ct := &chanTable{t: utils.NewSyncIntObjectChan(), ids: map[chan tl.Object]int{}}
			for i := 0; i < nkeys; i++ {
				ch := make(chan tl.Object)
				ct.vals = append(ct.vals, ch)
				ct.ids[ch] = i
			}
			tbl = ct
		} else {
			ht := &hintTable{t: utils.NewSyncIntReflectTypes()}
			for i := 0; i < nkeys; i++ {
				ht.vals = append(ht.vals, make([]reflect.Type, 1+i%3))
			}
			tbl = ht
		}
		base := 1 + r.Intn(1<<20)*4
		key := func(i int) int { return base + 4*i }
		var clock int64
		var mu sync.Mutex
		var ops []porcupine.Operation
		rec := func(client int, in linIn, f func() int) {
			t0 := atomic.AddInt64(&clock, 1)
			out := f()
			t1 := atomic.AddInt64(&clock, 1)
			mu.Lock()
			ops = append(ops, porcupine.Operation{ClientId: client, Input: in, Output: out, Call: t0, Return: t1})
			mu.Unlock()
		}
		// announced: keys whose Add has returned (what the receive loop can be asked about by a server that
		// answers requests it has received); others also probe keys not yet / never added (unknown ids).
		announced := make(chan int, nkeys)
		var wg sync.WaitGroup
		start := make(chan struct{})
		for o := 0; o < owners; o++ {
			wg.Add(1)
			seed := r.Int63()
			go func(o int) {
				defer wg.Done()
				lr := rand.New(rand.NewSource(seed))
				<-start
				for j := 0; j < perOwner; j++ {
					i := o*perOwner + j
					k := key(i)
					rec(o, linIn{0, k, i}, func() int { tbl.add(k, i); return 0 })
					announced <- i
					switch lr.Intn(4) {
					case 0:
						runtime.Gosched()
					case 1:
						rec(o, linIn{1, k, 0}, func() int { return tbl.get(k) })
					case 2: // the sender's own clean-up racing with the receive loop's
						rec(o, linIn{2, k, 0}, func() int { tbl.del(k); return 0 })
						rec(o, linIn{1, k, 0}, func() int { return tbl.get(k) })
					}
				}
			}(o)
		}
		var owg sync.WaitGroup
		stop := make(chan struct{})
		for x := 0; x < others; x++ {
			owg.Add(1)
			seed := r.Int63()
			go func(x int) {
				defer owg.Done()
				lr := rand.New(rand.NewSource(seed))
				cl := owners + x
				<-start
				for budget := 0; budget < 3*nkeys+4; budget++ {
					var i int
					select {
					case i = <-announced:
					case <-stop:
						return
					default:
						i = lr.Intn(nkeys + 1) // may name a key not added yet, or never (nkeys)
						runtime.Gosched()
					}
					k := key(i)
					rec(cl, linIn{1, k, 0}, func() int { return tbl.get(k) })
					switch lr.Intn(5) {
					case 0, 1:
						rec(cl, linIn{2, k, 0}, func() int { tbl.del(k); return 0 })
						rec(cl, linIn{1, k, 0}, func() int { return tbl.get(k) })
					case 2:
						tbl.keys()
					case 3:
						tbl.has(k)
					}
				}
			}(x)
		}
		close(start)
		wg.Wait()
		close(stop)
		owg.Wait()
		res, info := porcupine.CheckOperationsVerbose(linModel, ops, 20*time.Second)
		_ = info
		overl := 0
		sort.Slice(ops, func(a, b int) bool { return ops[a].Call < ops[b].Call })
		for a := 1; a < len(ops); a++ {
			if ops[a].Call < ops[a-1].Return && ops[a].ClientId != ops[a-1].ClientId {
				overl++
			}
		}
		c.Count("lin.histories", 1)
		c.Count("lin.operations", int64(len(ops)))
		c.Count("lin.overlapping_pairs", int64(overl))
		shape := fmt.Sprintf("%d/%d/%d/%d", kind, owners, perOwner, others)
		c.Distinct("lin", shape, overl > 0, linSig(ops))
		switch res {
		case porcupine.Illegal:
			c.Viol("C09", idx, "table/not-linearizable/"+[]string{"response-channels", "decoder-hints"}[kind],
				fmt.Sprintf("history of %d operations by %d goroutines on the %s table is not linearizable against a map in which every key is added once: a lookup returned something other than the entry in force (a caller's result would go to nobody, to the wrong caller, or twice); history: %s",
					len(ops), owners+others, []string{"request id -> waiting caller", "request id -> decoder hints"}[kind], linDescribe(ops)), nil)
		case porcupine.Unknown:
			c.Count("lin.checker_timeouts", 1)
		}
		if idx < 2 {
			c.Sample(map[string]interface{}{"workload": "table history checked by porcupine", "table": []string{"SyncIntObjectChan", "SyncIntReflectTypes"}[kind],
				"goroutines": owners + others, "operations": len(ops), "overlapping_pairs": overl, "first_operations": linDescribe(ops[:minInt(len(ops), 12)])})
		}
	}
}

func minInt(a, b int) int {
	if a < b {
		return a
	}
	return b
}

// linSig: the order of calls and returns projected on (client, op) — the interleaving signature of a history.
func linSig(ops []porcupine.Operation) string {
	type e struct {
		t int64
		s string
	}
	var es []e
	for _, o := range ops {
		i := o.Input.(linIn)
		es = append(es, e{o.Call, fmt.Sprintf("c%d.%d", o.ClientId, i.Op)}, e{o.Return, fmt.Sprintf("r%d", o.ClientId)})
	}
	sort.Slice(es, func(a, b int) bool { return es[a].t < es[b].t })
	s := ""
	for _, x := range es {
		s += x.s + " "
	}
	return s
}

func linDescribe(ops []porcupine.Operation) string {
	s := ""
	for _, o := range ops {
		s += fmt.Sprintf("[g%d %d..%d %s] ", o.ClientId, o.Call, o.Return, linModel.DescribeOperation(o.Input, o.Output))
		if len(s) > 3000 {
			s += "…"
			break
		}
	}
	return s
}
