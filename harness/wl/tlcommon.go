package wl

import (
	"fmt"
	"os"
	"sync"

	ts "github.com/xelaj/mtproto/zverif/ref/tlschema"
)

var (
	schemaOnce sync.Once
	apiSchema  *ts.Schema // api_latest.tl
	mtSchema   *ts.Schema // mtproto.tl
	allSchema  *ts.Schema // both
	schemaErr  error
)

// WireUsed: the definitions of mtproto.tl this client sends or a server may send to it
// (DESIGN.md 6/C13 gives the rationale).
var WireUsed = map[string]bool{
	"req_pq": true, "req_DH_params": true, "set_client_DH_params": true, "ping": true, "msgs_ack": true,
	"resPQ": true, "p_q_inner_data": true, "server_DH_params_fail": true, "server_DH_params_ok": true,
	"server_DH_inner_data": true, "client_DH_inner_data": true, "dh_gen_ok": true, "dh_gen_retry": true, "dh_gen_fail": true,
	"rpc_result": true, "rpc_error": true, "pong": true, "new_session_created": true, "msg_container": true, "gzip_packed": true,
	"bad_msg_notification": true, "bad_server_salt": true, "msg_resend_req": true, "msgs_state_req": true, "msgs_all_info": true,
	"msg_detailed_info": true, "msg_new_detailed_info": true,
}

// HandCodec: definitions whose Go type has a hand-written codec or no positional struct layout.
var HandCodec = map[string]bool{"msg_container": true, "gzip_packed": true, "msg_copy": true, "message": true, "future_salts": true}

func loadSchemas() error {
	schemaOnce.Do(func() {
		a, err := os.ReadFile("/repo/schemes/api_latest.tl")
		if err != nil {
			schemaErr = err
			return
		}
		m, err := os.ReadFile("/repo/schemes/mtproto.tl")
		if err != nil {
			schemaErr = err
			return
		}
		if apiSchema, schemaErr = ts.Parse(string(a)); schemaErr != nil {
			return
		}
		if mtSchema, schemaErr = ts.Parse(string(m)); schemaErr != nil {
			return
		}
		// parser self-validation: the CRC-32 of the canonical line must equal the written id
		n, bad := 0, 0
		for _, s := range []*ts.Schema{apiSchema, mtSchema} {
			for _, d := range s.Defs {
				if d.HasID {
					n++
					if ts.CanonicalCRC(d.Line, s) != d.ID {
						bad++
					}
				}
			}
		}
		if n < 1000 || bad*100 > n {
			schemaErr = fmt.Errorf("schema parser self-validation failed: %d of %d canonical CRCs differ from the written ids", bad, n)
			return
		}
		allSchema = ts.NewSchema()
		allSchema.Merge(apiSchema)
		allSchema.Merge(mtSchema)
	})
	return schemaErr
}
