package wl

import (
	"bytes"
	"context"
	"encoding/binary"
	"fmt"
	"math/rand"
	"net"
	"time"

	"github.com/xelaj/mtproto/internal/mode"
	"github.com/xelaj/mtproto/internal/mtproto/messages"
	"github.com/xelaj/mtproto/internal/transport"

	"github.com/xelaj/mtproto/zverif/ref/mtp"
	"github.com/xelaj/mtproto/zverif/wk"
)

func init() { wk.Register("c04wire", c04wire) }

// c04wire: the refusal rules at the boundary the receive loop uses — transport.ReadMsg on a real (loopback) socket —
// over SEQUENCES of frames: genuine packets sealed by the key holder interleaved with altered ones (bit flips,
// truncations, other key, foreign key id, garbage of every small length). The caller keeps every message it was
// handed, as the client does (a delivered message travels on to another goroutine while the loop reads the next
// frame). Oracle: an altered frame is refused with an error (or, only for a change confined to the unauthenticated
// padding, accepted as a message identical to the sealed one); a genuine frame is delivered exactly; and — the
// sequence dimension — every message delivered EARLIER is still exactly what the key holder sealed after any
// number of later frames, refused ones included: a forged packet must not reach into what was already accepted.
func c04wire(c *wk.Ctx) {
	n := c.Pick(40, 1500)
	for idx := 0; idx < n; idx++ {
		if !c.Mine(idx) {
			continue
		}
		r := c.Rand(idx)
		c.Begin(idx, "wire sequence")
		c04wireCase(c, idx, r)
	}
}

func c04wireCase(c *wk.Ctx, idx int, r *rand.Rand) {
	key := rbytes(r, 256)
	other := rbytes(r, 256)
	type frame struct {
		raw     []byte
		genuine bool
		in      mtp.Inner
		what    string
	}
	var frames []frame
	seal := func(k []byte, blen int) (mtp.Inner, []byte) {
		in := mtp.Inner{Salt: pick64(r), Session: pick64(r), MsgID: (pick64(r) &^ 3) | 1, SeqNo: int32(r.Intn(1 << 20)), Body: rbytes(r, blen)}
		return in, mtp.Seal(k, in, 8, rbytes(r, (16-(32+blen)%16)%16))
	}
	sizes := []int{0, 4, 8, 16, 40, 100, 256, 1000, 4096, 20000}
	nf := 3 + r.Intn(10)
	for i := 0; i < nf; i++ {
		blen := sizes[r.Intn(len(sizes))]
		if i > 0 && r.Intn(2) == 0 {
			// same size as the frame before: whatever is reused for equal sizes is reused now
			blen = len(frames[len(frames)-1].in.Body)
		}
		in, pkt := seal(key, blen)
		if i == 0 || r.Intn(5) < 2 {
			frames = append(frames, frame{raw: pkt, genuine: true, in: in, what: "genuine"})
			continue
		}
		f := frame{in: in}
		switch r.Intn(6) {
		case 0:
			q := append([]byte{}, pkt...)
			pos := 8 + r.Intn(len(q)-8) // msg_key or ciphertext
			if len(q)-pos <= 16 {
				pos = 8 + r.Intn(16) // keep away from the unauthenticated padding: the flip is in msg_key
			}
			q[pos] ^= 1 << uint(r.Intn(8))
			f.raw, f.what = q, "bit flip"
		case 1:
			cut := 24 + 16*r.Intn((len(pkt)-24)/16+1)
			if cut >= len(pkt) {
				cut = len(pkt) - 16
			}
			f.raw, f.what = append([]byte{}, pkt[:cut]...), "block-aligned truncation"
		case 2:
			_, q := seal(other, blen)
			copy(q[:8], pkt[:8])
			f.raw, f.what = q, "other key under the right key id"
		case 3:
			_, q := seal(other, blen)
			f.raw, f.what = q, "foreign key id"
		case 4:
			q := append([]byte{}, pkt...)
			copy(q[24:], rbytes(r, len(q)-24))
			f.raw, f.what = q, "garbage ciphertext under a genuine header"
		default:
			q := rbytes(r, 8+4*r.Intn(12))
			binary.LittleEndian.PutUint64(q, binary.LittleEndian.Uint64(pkt[:8]))
			f.raw, f.what = q, "short garbage under the right key id"
		}
		if len(f.raw) == 4 {
			f.raw = append(f.raw, 0, 0, 0, 0)
		}
		frames = append(frames, f)
	}
	ln, err := net.Listen("tcp", "127.0.0.1:0")
	if err != nil {
		c.Log.Emit(coreInconclusive("c04wire: listen: " + err.Error()))
		return
	}
	defer ln.Close()
	go func() {
		conn, err := ln.Accept()
		if err != nil {
			return
		}
		defer conn.Close()
		ann := make([]byte, 4)
		conn.SetReadDeadline(time.Now().Add(20 * time.Second))
		if _, err := readFull(conn, ann); err != nil {
			return
		}
		for _, f := range frames {
			var l [4]byte
			binary.LittleEndian.PutUint32(l[:], uint32(len(f.raw)))
			conn.Write(append(l[:], f.raw...))
		}
		time.Sleep(50 * time.Millisecond)
	}()
	ctx, cancel := context.WithCancel(context.Background())
	defer cancel()
	var tr transport.Transport
	pan, pm, st := wk.Guard(func() {
		tr, err = transport.NewTransport(&stubInfo{key: key}, transport.TCPConnConfig{Ctx: ctx, Host: ln.Addr().String(), Timeout: 20 * time.Second}, mode.Intermediate)
	})
	if pan || err != nil {
		c.Log.Emit(coreInconclusive("c04wire: connect: " + fmt.Sprint(pm, err, st)))
		return
	}
	defer wk.Guard(func() { tr.Close() })
	type heldMsg struct {
		m    *messages.Encrypted
		want mtp.Inner
		at   int
	}
	var held []heldMsg
	shape := ""
	for i, f := range frames {
		var msg messages.Common
		var rerr error
		pan, pm, st := wk.Guard(func() { msg, rerr = tr.ReadMsg() })
		if pan {
			c.Viol("C04", idx, "wire/panic/"+st, fmt.Sprintf("frame %d (%s, %d bytes): %s", i, f.what, len(f.raw), pm), nil)
			return
		}
		if f.genuine {
			shape += "G"
			m, ok := msg.(*messages.Encrypted)
			if rerr != nil || !ok || m == nil {
				c.Viol("C04", idx, "wire/genuine-refused", fmt.Sprintf("frame %d of [%s]: a packet sealed by the key holder was not delivered: %v", i, shape, rerr), nil)
				return
			}
			if m.Salt != f.in.Salt || m.SessionID != f.in.Session || m.MsgID != f.in.MsgID || m.SeqNo != f.in.SeqNo || !bytes.Equal(m.Msg, f.in.Body) {
				c.Viol("C04", idx, "wire/genuine-differs", fmt.Sprintf("frame %d of [%s]: delivered message differs from the sealed one", i, shape), nil)
				return
			}
			held = append(held, heldMsg{m: m, want: f.in, at: i})
		} else {
			shape += "x"
			c.Count("wire.altered."+f.what, 1)
			if rerr == nil && msg != nil {
				m, ok := msg.(*messages.Encrypted)
				if !ok || m.Salt != f.in.Salt || m.SessionID != f.in.Session || m.MsgID != f.in.MsgID || m.SeqNo != f.in.SeqNo || !bytes.Equal(m.Msg, f.in.Body) {
					c.Viol("C04", idx, "wire/altered-accepted/"+f.what, fmt.Sprintf("frame %d of [%s] (%s, %d bytes) was delivered as a message that differs from what the key holder sealed", i, shape, f.what, len(f.raw)), fmt.Sprintf("%x", clipIn(f.raw)))
					return
				}
				c.Count("wire.accepted_identical_to_sealed", 1)
			} else if rerr == nil && msg == nil {
				c.Viol("C04", idx, "wire/altered-neither-message-nor-error/"+f.what, fmt.Sprintf("frame %d of [%s] (%s): ReadMsg returned (nil, nil)", i, shape, f.what), nil)
				return
			}
		}
		// everything delivered so far is still what was sealed
		for _, h := range held {
			if h.m.Salt != h.want.Salt || h.m.SessionID != h.want.Session || h.m.MsgID != h.want.MsgID || h.m.SeqNo != h.want.SeqNo || !bytes.Equal(h.m.Msg, h.want.Body) {
				c.Viol("C04", idx, "wire/delivered-message-changed-by-later-frame", fmt.Sprintf("the message delivered for frame %d changed after frame %d (%s, %d bytes) was read; sequence [%s] (G genuine, x altered): a later packet — refused or not — rewrote a message the client had already accepted", h.at, i, f.what, len(f.raw), shape), nil)
				return
			}
		}
	}
	c.Count("wire.frames", int64(len(frames)))
	c.Count("wire.messages_held", int64(len(held)))
	c.Distinct("wire", shape, idx)
	if idx < 2 {
		c.Sample(map[string]interface{}{"workload": "frame sequence through transport.ReadMsg on loopback TCP", "sequence": shape, "held_messages": len(held)})
	}
}

func readFull(conn net.Conn, b []byte) (int, error) {
	n := 0
	for n < len(b) {
		k, err := conn.Read(b[n:])
		n += k
		if err != nil {
			return n, err
		}
	}
	return n, nil
}
