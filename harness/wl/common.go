package wl

import "github.com/xelaj/mtproto/zverif/core"

func coreInconclusive(s string) core.Event { return core.Event{Ev: "inconclusive", Detail: s} }

func core64(s string) uint64 { return core.Hash64(s) }
