package wl

import "github.com/xelaj/mtproto/zverif/core"

func coreInconclusive(s string) core.Event { return core.Event{Ev: "inconclusive", Detail: s} }
