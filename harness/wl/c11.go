package wl

import (
	"fmt"
	"math/rand"
	"os"
	"path/filepath"
	"sync"
	"sync/atomic"
	"time"

	"github.com/xelaj/mtproto/zverif/ref/mtp"
	"github.com/xelaj/mtproto/zverif/refserver"
	"github.com/xelaj/mtproto/zverif/wk"
)

func init() { wk.Register("c11", c11) }

// One rotation step of a history: A requests are issued and accepted but their answers withheld, then the
// server rotates its salt, then R requests are issued (rejected once, re-sent under the new salt), then the
// withheld answers are released.
type c11step struct {
	Accepted  int
	Rejected  int
	Announce  bool // rotate by new_session_created instead of by rejecting (no rejection expected)
	LateFirst bool // release the withheld answers before the rejected ones are answered
	Twice     bool // the server rotates a second time as soon as it has rejected something under the first new salt
	Times     int  // ... and that many more times, each as soon as the next rejection is out (a request is rejected again and again)
}

type c11history struct {
	MemStore    bool // the application's own session storage (Config.SessionStorage) instead of a file
	StoreBroken bool // the session store cannot be written while the rotations happen (directory gone)
	Fresh       bool
	Steps       []c11step
	Kinds       []string
	Bundle      bool // rejections of acknowledgements are sent inside a container, in front of the next answers
	Back        bool // every second rotation returns to the salt that was valid two rotations ago (A -> B -> A)
	OddSeq      bool // the server numbers its bad_server_salt notifications like content-related messages (odd seq_no): the client has to acknowledge them
}

func c11histories(c *wk.Ctx) []c11history {
	var out []c11history
	// the three seed histories of DESIGN 6/C11
	out = append(out,
		c11history{Fresh: true, Steps: []c11step{{Rejected: 1}}, Kinds: []string{"object"}},
		c11history{Fresh: false, Steps: []c11step{{Rejected: 1}, {Rejected: 1}}, Kinds: []string{"object"}},
		c11history{Fresh: false, Steps: []c11step{{Accepted: 1, Rejected: 1}}, Kinds: []string{"object"}},
	)
	maxN := c.Pick(3, 5)
	for k := 1; k <= 3; k++ {
		for a := 0; a <= maxN; a++ {
			for rj := 0; rj+a <= maxN; rj++ {
				if a+rj == 0 {
					continue
				}
				for _, fresh := range []bool{false, true} {
					if fresh && (k > 1 || a+rj > 2) && c.Quick() {
						continue
					}
					h := c11history{Fresh: fresh, Kinds: rpcKinds}
					for s := 0; s < k; s++ {
						h.Steps = append(h.Steps, c11step{Accepted: a, Rejected: rj, LateFirst: s%2 == 1})
					}
					out = append(out, h)
				}
			}
		}
	}
	// back to an earlier salt; rejected acknowledgements bundled with answers
	out = append(out,
		c11history{Back: true, Steps: []c11step{{Announce: true}, {Rejected: 1}, {Rejected: 1}}, Kinds: []string{"object"}},
		c11history{Back: true, Steps: []c11step{{Rejected: 1}, {Rejected: 2}, {Accepted: 1, Rejected: 1}}, Kinds: rpcKinds},
		c11history{Back: true, Fresh: true, Steps: []c11step{{Announce: true, Accepted: 1}, {Rejected: 1}}, Kinds: rpcKinds},
		c11history{Bundle: true, Steps: []c11step{{Accepted: 2, Rejected: 1}}, Kinds: rpcKinds},
		c11history{Bundle: true, Steps: []c11step{{Accepted: 3, Rejected: 0, LateFirst: true}, {Accepted: 1, Rejected: 2}}, Kinds: rpcKinds},
		c11history{Bundle: true, Fresh: true, Steps: []c11step{{Accepted: 2, Rejected: 2}}, Kinds: rpcKinds},
		c11history{Bundle: true, Back: true, Steps: []c11step{{Accepted: 1, Rejected: 1}, {Accepted: 2, Rejected: 1}, {Accepted: 1, Rejected: 1}}, Kinds: rpcKinds})
	out = append(out,
		c11history{MemStore: true, Steps: []c11step{{Rejected: 1, Twice: true}}, Kinds: []string{"object"}},
		c11history{MemStore: true, Steps: []c11step{{Accepted: 1, Rejected: 2, Twice: true}, {Rejected: 1, Twice: true}}, Kinds: rpcKinds},
		c11history{Steps: []c11step{{Rejected: 2, Twice: true}}, Kinds: rpcKinds},
		c11history{Steps: []c11step{{Rejected: 1, Times: 5}}, Kinds: []string{"object"}},
		c11history{Steps: []c11step{{Accepted: 1, Rejected: 2, Times: 8}}, Kinds: rpcKinds},
		c11history{Fresh: true, Steps: []c11step{{Rejected: 1, Times: 4}, {Rejected: 1, Times: 12}}, Kinds: rpcKinds},
		c11history{MemStore: true, Steps: []c11step{{Rejected: 1}, {Announce: true, Accepted: 1}}, Kinds: rpcKinds},
		c11history{MemStore: true, Fresh: true, Steps: []c11step{{Accepted: 1, Rejected: 2}}, Kinds: rpcKinds},
		c11history{StoreBroken: true, Steps: []c11step{{Rejected: 1}}, Kinds: []string{"object"}},
		c11history{StoreBroken: true, Steps: []c11step{{Accepted: 2, Rejected: 2}, {Rejected: 1}}, Kinds: rpcKinds},
		c11history{StoreBroken: true, Fresh: true, Steps: []c11step{{Announce: true, Accepted: 1}, {Accepted: 1, Rejected: 1}}, Kinds: rpcKinds})
	out = append(out,
		c11history{OddSeq: true, Steps: []c11step{{Rejected: 1}}, Kinds: []string{"object"}},
		c11history{OddSeq: true, Steps: []c11step{{Accepted: 1, Rejected: 2}, {Rejected: 1}}, Kinds: rpcKinds},
		c11history{OddSeq: true, Fresh: true, Bundle: true, Steps: []c11step{{Accepted: 2, Rejected: 1}}, Kinds: rpcKinds},
		c11history{OddSeq: true, MemStore: true, Steps: []c11step{{Rejected: 1, Times: 4}}, Kinds: rpcKinds})
	out = append(out, c11history{Steps: []c11step{{Announce: true, Accepted: 1}}, Kinds: []string{"object"}},
		c11history{Steps: []c11step{{Announce: true}, {Rejected: 2}}, Kinds: rpcKinds},
		c11history{Fresh: true, Steps: []c11step{{Announce: true, Accepted: 2}, {Accepted: 1, Rejected: 1}}, Kinds: rpcKinds})
	return out
}

func c11(c *wk.Ctx) {
	idx := 0
	for _, h := range c11histories(c) {
		if c.Mine(idx) {
			c.Begin(idx, toJSON(h))
			c11case(c, idx, c.Rand(idx), h)
		}
		idx++
	}
	for k := 0; k < c.Pick(20, 1000); k++ {
		if c.Mine(idx) {
			r := c.Rand(idx)
			h := c11history{Fresh: r.Intn(4) == 0, Kinds: rpcKinds, Bundle: r.Intn(3) == 0, Back: r.Intn(3) == 0, StoreBroken: r.Intn(6) == 0, MemStore: r.Intn(4) == 0, OddSeq: r.Intn(3) == 0}
			for s := 1 + r.Intn(3); s > 0; s-- {
				h.Steps = append(h.Steps, c11step{Accepted: r.Intn(4), Rejected: r.Intn(4), Announce: r.Intn(6) == 0, LateFirst: r.Intn(2) == 0, Twice: r.Intn(5) == 0})
			}
			c.Begin(idx, toJSON(h))
			c11case(c, idx, r, h)
		}
		idx++
	}
	theHooks.flushCounts(c)
}

func c11case(c *wk.Ctx, idx int, r *rand.Rand, h c11history) {
	var mu sync.Mutex
	rejections := map[uint64]int{}
	rejectedFrames := 0
	hold := map[uint64]bool{}
	sawNewSaltAt := map[int64]bool{}
	var bundled [][2]int64 // (msg_id, seq_no) of rejected acknowledgements whose bad_server_salt travels with the next answer
	var grace int64        // a salt announced by new_session_created is valid at once; the previous one stays valid until the client has acknowledged
	graceOn := false
	e, err := newRPCEnv(c, idx, r, envOpts{
		Fresh:    h.Fresh,
		MemStore: h.MemStore,
		Any: func(e *rpcEnv, cn *refserver.Conn, in *mtp.Inner) bool {
			cur := e.salt()
			mu.Lock()
			g, gok := grace, graceOn
			mu.Unlock()
			if in.Salt == cur || (gok && in.Salt == g) {
				return false
			}
			// a conformant server refuses any message under a wrong salt and names the right one
			uid, _, _, ok := answerFor(in.Body)
			mu.Lock()
			rejectedFrames++
			if ok {
				rejections[uid]++
			}
			mu.Unlock()
			e.w.emit("srv.reject", map[string]interface{}{"msg_id": fmt.Sprint(in.MsgID), "uid": fmt.Sprint(uid), "had_salt": fmt.Sprint(in.Salt), "salt": fmt.Sprint(cur)})
			bss := refserver.BadServerSalt(in.MsgID, in.SeqNo, cur)
			if !ok && h.Bundle {
				// the rejection of a message nobody waits for (an acknowledgement) is kept and sent in one container
				// together with the next answers, in front of them; the notification is composed when it is sent, so
				// it names the salt valid at that moment (a conformant server never announces a salt it has left behind)
				mu.Lock()
				bundled = append(bundled, [2]int64{in.MsgID, int64(in.SeqNo)})
				mu.Unlock()
				return true
			}
			cn.SendEncrypted(refserver.Out{MsgID: e.srv.NextMsgID(3), SeqNo: cn.NextSeq(h.OddSeq), Body: bss}, cur, "bad_server_salt", nil)
			return true
		},
		Handler: func(e *rpcEnv, p pendingReq, in *mtp.Inner) bool {
			mu.Lock()
			h := hold[p.uid]
			mu.Unlock()
			if h {
				return false // queue: answered later
			}
			c11send(e, p, &mu, &bundled)
			return true
		},
	})
	tag := fmt.Sprintf("fresh=%v", h.Fresh)
	if err != nil {
		c.Viol("C11", idx, "setup/"+tag, err.Error(), h)
		return
	}
	defer e.close()
	if h.StoreBroken && !h.MemStore {
		// the directory of the session file disappears (volume unmounted, directory cleaned up): saving the new salt
		// fails from now on; the calls are owed their answers all the same
		os.RemoveAll(filepath.Dir(e.sess))
		c.Count("histories.with_unwritable_store", 1)
	}
	_ = sawNewSaltAt
	delays := map[string]int{}
	for _, p := range []string{"salt.adopt", "salt.notify", "call.retry", "send.enter", "rpc.deliver.before", "recv.dispatch", "wire.written"} {
		if r.Intn(2) == 0 {
			delays[p] = []int{100, 1000, 3000}[r.Intn(3)]
		}
	}
	// scripted schedules: the caller is held right after its write (or after sendPacket returned), so the server's
	// rejection reaches the receive loop before the caller waits for anything
	switch idx % 4 {
	case 1:
		delays["call.sent"] = hookAlways + 5000
	case 2:
		// ... inside the transport, before WriteMsg has even returned to the send path
		delays["wire.written"] = hookAlways + 5000
	case 3:
		if r.Intn(2) == 0 {
			delays["call.sent"] = 3000
		}
	}
	theHooks.start(rand.New(rand.NewSource(r.Int63())), delays, nil)
	defer theHooks.stop()
	used := map[uint64]bool{}
	var allCalls []callRec
	var cmu sync.Mutex
	desc := toJSON(h)
	fail := func(stage string) {
		if st, dump := isStalled(); st {
			c.Viol("C11", idx, "stall/"+stage+"/"+tag, fmt.Sprintf("history %s: calls never return and nothing can move (the goroutine dump shows where the receive loop is parked)", desc), dump)
		} else {
			c.Log.Emit(coreInconclusive("c11: " + stage + " did not finish within the watchdog for " + desc))
		}
	}
	launch := func(n int, held bool, wg *sync.WaitGroup) {
		for i := 0; i < n; i++ {
			kind := h.Kinds[r.Intn(len(h.Kinds))]
			uid := uidFor(r, kind, used)
			if held {
				mu.Lock()
				hold[uid] = true
				mu.Unlock()
			}
			wg.Add(1)
			go func(i int) {
				defer wg.Done()
				rec := e.doCall(i, uid, kind, false)
				cmu.Lock()
				allCalls = append(allCalls, rec)
				cmu.Unlock()
			}(i)
		}
	}
	waitArrived := func(n int) bool {
		for w := 0; w < 1500; w++ {
			e.mu.Lock()
			np := len(e.pending)
			e.mu.Unlock()
			if np >= n {
				return true
			}
			time.Sleep(2 * time.Millisecond)
		}
		return false
	}
	saltTrail := []int64{e.salt()}
	for si, st := range h.Steps {
		var wgA, wgR sync.WaitGroup
		// A: accepted before the rotation, answers withheld
		launch(st.Accepted, true, &wgA)
		if st.Accepted > 0 && !waitArrived(st.Accepted) {
			fail(fmt.Sprintf("step%d-accept", si))
			return
		}
		// rotation
		newSalt := int64(r.Uint64())
		if h.Back && si%2 == 1 && len(saltTrail) >= 2 {
			newSalt = saltTrail[len(saltTrail)-2] // back to the salt that was in force before the previous rotation
			c.Count("rotations.back_to_earlier_salt", 1)
		}
		saltTrail = append(saltTrail, newSalt)
		if st.Announce {
			// the announcement needs a connection that has carried encrypted traffic: make one call first if needed
			var cn *refserver.Conn
			if conns := e.srv.Conns(); len(conns) > 0 {
				cn = conns[len(conns)-1]
			}
			if k, _ := func() ([]byte, int64) {
				if cn == nil {
					return nil, 0
				}
				return cn.KeySession()
			}(); k == nil {
				var wg0 sync.WaitGroup
				launch(1, false, &wg0)
				if !withTimeout(20*time.Second, wg0.Wait) {
					fail("warm-up")
					return
				}
				conns := e.srv.Conns()
				if len(conns) == 0 {
					c.Log.Emit(coreInconclusive("c11: no server-side connection after the warm-up call"))
					return
				}
				cn = conns[len(conns)-1]
			}
			old := e.salt()
			annID := e.srv.NextMsgID(3)
			e.mu.Lock()
			e.sentCont[annID] = true
			e.mu.Unlock()
			// the announced salt is valid from the moment it is announced (set before sending: the client's
			// acknowledgement may arrive before this goroutine runs again); the old one stays valid until then
			mu.Lock()
			grace, graceOn = old, true
			mu.Unlock()
			e.srv.SetSalt(e.key, newSalt)
			cn.SendEncrypted(refserver.Out{MsgID: annID, SeqNo: cn.NextSeq(true), Body: refserver.NewSessionCreated(1, int64(r.Uint64()), newSalt)}, old, "new_session_created", nil)
			// the client has processed the announcement once its acknowledgement is in (it acknowledges after
			// handling); that is a logical condition, not a delay. The server keeps accepting the old salt until then.
			acked := false
			for w := 0; w < 1500 && !acked; w++ {
				e.mu.Lock()
				acked = e.acked[annID]
				e.mu.Unlock()
				if !acked {
					time.Sleep(10 * time.Millisecond)
				}
			}
			if !acked {
				c.Log.Emit(coreInconclusive("c11: new_session_created was not acknowledged within the watchdog; store check skipped for " + desc))
				return
			}
			mu.Lock()
			graceOn = false
			mu.Unlock()
		} else {
			e.srv.SetSalt(e.key, newSalt)
		}
		e.w.emit("srv.rotate", map[string]interface{}{"salt": fmt.Sprint(newSalt), "announce": st.Announce})
		// R: issued after the rotation — rejected once unless the client already knows the new salt
		release := func() {
			p := e.takePending()
			for _, q := range p {
				c11send(e, q, &mu, &bundled)
			}
		}
		if st.LateFirst {
			release()
		}
		if st.Twice && e.mem != nil {
			atomic.StoreInt32(&e.mem.slowNext, 1) // the first of the two saves meets a slow medium
		}
		mu.Lock()
		rejectedBefore := rejectedFrames
		mu.Unlock()
		launch(st.Rejected, false, &wgR)
		more := st.Times
		if st.Twice && more == 0 {
			more = 1
		}
		for t := 0; t < more && st.Rejected > 0 && !st.Announce; t++ {
			// rotations close together: as soon as the next rejection is out, the salt changes again; what ends up in the
			// store is the salt in force at the end, and every call still gets its answer however often it was rejected
			seen := false
			for w := 0; w < 3000 && !seen; w++ {
				mu.Lock()
				seen = rejectedFrames > rejectedBefore
				if seen {
					rejectedBefore = rejectedFrames
				}
				mu.Unlock()
				if !seen {
					time.Sleep(time.Millisecond)
				}
			}
			if !seen {
				break // the re-sent request got through under the current salt: nothing left to reject
			}
			newSalt = int64(r.Uint64())
			saltTrail = append(saltTrail, newSalt)
			e.srv.SetSalt(e.key, newSalt)
			e.w.emit("srv.rotate", map[string]interface{}{"salt": fmt.Sprint(newSalt), "again": t + 1})
			c.Count("rotations.right_after_a_rejection", 1)
		}
		if !withTimeout(30*time.Second, wgR.Wait) {
			fail(fmt.Sprintf("step%d-rejected", si))
			return
		}
		if more > 0 && st.Rejected > 0 && !st.Announce {
			// the last of the quick rotations may have come after the client's last message: one more call makes sure
			// the client has met the salt now in force before the store is looked at
			var wgL sync.WaitGroup
			launch(1, false, &wgL)
			if !withTimeout(30*time.Second, wgL.Wait) {
				fail(fmt.Sprintf("step%d-after-rotations", si))
				return
			}
		}
		if !st.LateFirst {
			release()
		}
		if !withTimeout(30*time.Second, wgA.Wait) {
			fail(fmt.Sprintf("step%d-late-answers", si))
			return
		}
		// the adopted salt must be in the session store
		e.quiesce(time.Second)
		if _, serr := e.storedSession(); serr == nil || e.mem != nil {
			// the client rewrites the file whenever it adopts a salt (e.g. when an acknowledgement is rejected later);
			// a read that races with such a rewrite sees a torn file, which the store property allows — read again
			s, lerr := e.storedSession()
			for retry := 0; retry < 50 && (lerr != nil || (st.Rejected > 0 || st.Announce) && s.Salt != newSalt); retry++ {
				time.Sleep(10 * time.Millisecond)
				s, lerr = e.storedSession()
			}
			if lerr != nil || (st.Rejected > 0 || st.Announce) && s.Salt != newSalt {
				got := int64(0)
				if s != nil {
					got = s.Salt
				}
				c.Viol("C11", idx, fmt.Sprintf("salt-not-stored/announce=%v/%s", st.Announce, tag), fmt.Sprintf("history %s step %d: session store holds salt %d, server rotated to %d (err=%v)", desc, si, got, newSalt, lerr), h)
			}
		} else if !h.StoreBroken {
			c.Viol("C11", idx, "salt-not-stored/no-file/"+tag, serr.Error(), h)
		}
	}
	// probe after the last rotation
	var wgP sync.WaitGroup
	launch(1, false, &wgP)
	if !withTimeout(30*time.Second, wgP.Wait) {
		fail("probe")
		return
	}
	e.quiesce(time.Second)
	// ---- offline oracle over what was observed
	e.mu.Lock()
	arr := map[uint64]int{}
	for k, v := range e.arrivals {
		arr[k] = v
	}
	recv := append([]recvRec{}, e.recv...)
	e.mu.Unlock()
	mu.Lock()
	rej := map[uint64]int{}
	for k, v := range rejections {
		rej[k] = v
	}
	mu.Unlock()
	for _, rc := range allCalls {
		c.Count("calls", 1)
		switch {
		case rc.Panic != "":
			c.Viol("C11", idx, "caller-panic/"+tag, fmt.Sprintf("history %s: %s", desc, rc.Panic), h)
		case rc.Err != "" || !rc.OK:
			c.Viol("C11", idx, "wrong-or-no-answer/"+tag, fmt.Sprintf("history %s: call uid=%d kind=%s err=%q got=%q", desc, rc.UID, rc.Kind, rc.Err, rc.Got), h)
		}
		want := 1 + rej[rc.UID]
		if arr[rc.UID] != want {
			held := "rejected"
			mu.Lock()
			if hold[rc.UID] {
				held = "accepted-answered-late"
			}
			mu.Unlock()
			c.Viol("C11", idx, fmt.Sprintf("sent-%d-times-want-%d/%s/%s", arr[rc.UID], want, held, tag), fmt.Sprintf("history %s: request uid=%d (%s) arrived at the server %d times; the server rejected it %d times, so it must arrive %d times", desc, rc.UID, held, arr[rc.UID], rej[rc.UID], want), h)
		}
	}
	// a re-sent request must carry the salt the server named
	lastSalt := map[uint64]int64{}
	for _, rr := range recv {
		if rr.Kind != "" {
			lastSalt[rr.UID] = rr.Salt
		}
	}
	c.Count("rotations", int64(len(h.Steps)))
	c.Count("rejected_frames", int64(rejectedFrames))
	c.Distinct("history", desc, fmt.Sprint(delays))
	if idx%6 == 0 {
		c.Sample(map[string]interface{}{"history": h, "rejected_frames": rejectedFrames, "calls": len(allCalls)})
	}
}

// c11send answers one request; bad_server_salt bodies kept back for bundling go out in the same container, first.
func c11send(e *rpcEnv, p pendingReq, mu *sync.Mutex, bundled *[][2]int64) {
	mu.Lock()
	b := *bundled
	*bundled = nil
	mu.Unlock()
	if len(b) == 0 {
		e.sendGroup(p.conn, [][]byte{e.resultBody(p, wrapOpts{})}, []uint64{p.uid}, false)
		return
	}
	e.c.Count("bundled.containers_with_rejection_first", 1)
	var items []refserver.Out
	for _, rj := range b {
		items = append(items, refserver.Out{MsgID: e.srv.NextMsgID(3), SeqNo: p.conn.NextSeq(false), Body: refserver.BadServerSalt(rj[0], int32(rj[1]), e.salt())})
	}
	id := e.srv.NextMsgID(1)
	e.mu.Lock()
	e.sentCont[id] = true
	e.mu.Unlock()
	items = append(items, refserver.Out{MsgID: id, SeqNo: p.conn.NextSeq(true), Body: e.resultBody(p, wrapOpts{})})
	p.conn.SendEncrypted(refserver.Out{MsgID: e.srv.NextMsgID(1), SeqNo: p.conn.NextSeq(false), Body: refserver.Container(items)}, e.salt(), "container", map[string]interface{}{"n": len(items), "bundled_rejections": len(b), "uid": fmt.Sprint(p.uid)})
}
