package wl

import (
	"bytes"
	"crypto/sha1"
	"encoding/hex"
	"encoding/json"
	"fmt"
	"math/big"
	"math/rand"
	"os"
	"time"

	"github.com/xelaj/mtproto"
	"github.com/xelaj/mtproto/internal/session"
	"github.com/xelaj/mtproto/telegram"
	"github.com/xelaj/mtproto/zverif/ref/mtp"
	"github.com/xelaj/mtproto/zverif/refserver"
	"github.com/xelaj/mtproto/zverif/wk"
)

func init() { wk.Register("c06", c06) }

var c06Fields = []string{"nonce", "server_nonce", "new_nonce", "new_nonce_hash1", "rsa_ciphertext", "g_a", "g_b", "g_ab"}

type c06plan struct {
	Kind   string // "corner", "random", "pq"
	Field  string
	Zeros  int
	PQKind string
}

func c06plans(c *wk.Ctx) []c06plan {
	var out []c06plan
	maxZ := 2 // searching a two-zero-byte corner costs well under a second
	for _, f := range c06Fields {
		for z := 1; z <= maxZ; z++ {
			out = append(out, c06plan{Kind: "corner", Field: f, Zeros: z})
		}
	}
	for i := 0; i < c.Pick(8, 300); i++ {
		out = append(out, c06plan{Kind: "random"})
	}
	for _, k := range []string{"tiny", "close", "extreme", "small-large", "equal-bitlen", "max", "p-lt-2^16", "twin"} {
		out = append(out, c06plan{Kind: "pq", PQKind: k})
	}
	return out
}

func c06(c *wk.Ctx) {
	t := installTee()
	idx := 0
	for _, pl := range c06plans(c) {
		if c.Mine(idx) {
			r := c.Rand(idx)
			b, _ := json.Marshal(pl)
			c.Begin(idx, string(b))
			t.Reset()
			c06case(c, idx, r, pl, t)
		}
		idx++
	}
}

// validGenerators: the g in 2..7 for which the specification's condition on p holds (g = 4 needs none).
func validGenerators(p *big.Int) []int32 {
	mod := func(m int64) int64 { return new(big.Int).Mod(p, big.NewInt(m)).Int64() }
	var out []int32
	if mod(8) == 7 {
		out = append(out, 2)
	}
	if mod(3) == 2 {
		out = append(out, 3)
	}
	out = append(out, 4)
	if m := mod(5); m == 1 || m == 4 {
		out = append(out, 5)
	}
	if m := mod(24); m == 19 || m == 23 {
		out = append(out, 6)
	}
	if m := mod(7); m == 3 || m == 5 || m == 6 {
		out = append(out, 7)
	}
	return out
}

func prevPrime(n uint64) uint64 {
	for ; ; n-- {
		if new(big.Int).SetUint64(n).ProbablyPrime(20) {
			return n
		}
	}
}

func lzBytes(r *rand.Rand, n, zeros int) []byte {
	b := rbytes(r, n)
	for i := 0; i < zeros; i++ {
		b[i] = 0
	}
	if b[zeros] == 0 {
		b[zeros] = 1
	}
	return b
}

// c06innerData replicates p_q_inner_data as any client must serialise it (the layout is fixed by the schema).
func c06innerData(pq, p, q *big.Int, nonce, serverNonce, newNonce []byte) []byte {
	b := []byte{0xec, 0x5a, 0xc9, 0x83}
	b = append(b, mtp.TLBytes(pq.Bytes())...)
	b = append(b, mtp.TLBytes(p.Bytes())...)
	b = append(b, mtp.TLBytes(q.Bytes())...)
	b = append(b, nonce...)
	b = append(b, serverNonce...)
	return append(b, newNonce...)
}

func c06case(c *wk.Ctx, idx int, r *rand.Rand, pl c06plan, t *rngTee) {
	w := newWorld(c, idx)
	defer w.close()
	var srv *refserver.Server
	srv = w.server(refserver.HandlerFunc(func(cn *refserver.Conn, in *mtp.Inner) {
		if uid, kind, res, ok := answerFor(in.Body); ok {
			key, _ := cn.KeySession()
			salt, _ := srv.Salt(key)
			w.emit("srv.answer", map[string]interface{}{"uid": fmt.Sprint(uid), "kind": kind, "req_msg_id": fmt.Sprint(in.MsgID), "salt_ok": in.Salt == salt})
			cn.SendEncrypted(refserver.Out{MsgID: srv.NextMsgID(1), SeqNo: cn.NextSeq(true), Body: refserver.RPCResult(in.MsgID, res)}, salt, "rpc_result", map[string]interface{}{"uid": fmt.Sprint(uid)})
		}
	}))
	// the server's own choices: its RSA key (any RSA-2048 key: public exponents 65537, 3, 257, 2^31-1) and its
	// generator (any g in 2..7 that the specification allows for the prime)
	srv.RSA = refserver.TestKeys()[(idx/2)%4]
	gens := validGenerators(mtp.DHPrime)
	srv.G = gens[(idx/3)%len(gens)]
	c.Count(fmt.Sprintf("server.rsa_e=%d", srv.RSA.E), 1)
	c.Count(fmt.Sprintf("server.g=%d", srv.G), 1)
	// the server's clock is its own: behind, ahead, not set at all, far future
	srv.ServerTime = nil
	if shifts := []int64{0, -61, 0, 601, 0, -1 << 40, 0, 86400 * 365 * 12, 0, -7200}; shifts[idx%len(shifts)] != 0 {
		sh := shifts[idx%len(shifts)]
		srv.ServerTime = func() int32 {
			if sh == -1<<40 {
				return 0
			}
			return int32(time.Now().Unix() + sh)
		}
		c.Count("server.clock_differs", 1)
	}
	g := big.NewInt(int64(srv.G))
	// ---- fix the draws of both sides
	serverNonce := rbytes(r, 16)
	nonce := rbytes(r, 16)
	newNonce := rbytes(r, 32)
	aBytes := rbytes(r, 256)
	bBytes := rbytes(r, 256)
	p, q := uint64(0), uint64(0)
	switch pl.PQKind {
	case "tiny":
		p, q = 3, 5
	case "close":
		p = prevPrime(1<<31 - uint64(r.Intn(1000)))
		q = prevPrime(p - 1)
	case "extreme":
		p, q = 2, prevPrime(1<<32-1)
	case "small-large":
		p, q = prevPrime(uint64(100+r.Intn(1000))), prevPrime(1<<32-uint64(r.Intn(100000))-1)
	case "equal-bitlen":
		p, q = prevPrime(1<<31+uint64(r.Intn(1<<30))), prevPrime(1<<31+uint64(r.Intn(1<<30)))
	case "max":
		p = prevPrime(1<<32 - 1)
		q = prevPrime(p - 1)
	case "p-lt-2^16":
		p, q = prevPrime(uint64(1<<15+r.Intn(1<<15))), prevPrime(1<<31-uint64(r.Intn(1<<20)))
	case "twin":
		p = prevPrime(uint64(1<<30 + r.Intn(1<<29)))
		q = p // p == q: pq is a square; the statement speaks of products of two primes — kept as informational
	default:
		p, q = prevPrime(uint64(1<<30+r.Intn(1<<30))), prevPrime(uint64(1<<30+r.Intn(1<<30)))
	}
	if p > q {
		p, q = q, p
	}
	forcedBy := "n/a"
	if pl.Kind == "corner" {
		switch pl.Field {
		case "server_nonce":
			serverNonce = lzBytes(r, 16, pl.Zeros)
			forcedBy = "server draw"
		case "nonce":
			nonce = lzBytes(r, 16, pl.Zeros)
			forcedBy = "scripted crypto/rand"
		case "new_nonce":
			newNonce = lzBytes(r, 32, pl.Zeros)
			forcedBy = "scripted crypto/rand"
		case "g_a":
			if e := findExponent(g, aBytes, pl.Zeros, 1<<22); e != nil {
				aBytes = mtp.LeftPad(e.Bytes(), 256)
			}
			forcedBy = "server draw"
		case "g_b":
			if e := findExponent(g, bBytes, pl.Zeros, 1<<22); e != nil {
				bBytes = mtp.LeftPad(e.Bytes(), 256)
			}
			forcedBy = "scripted crypto/rand"
		case "g_ab":
			ga := new(big.Int).Exp(g, new(big.Int).SetBytes(aBytes), mtp.DHPrime)
			if e := findExponent(ga, bBytes, pl.Zeros, 1<<22); e != nil {
				bBytes = mtp.LeftPad(e.Bytes(), 256)
			}
			forcedBy = "scripted crypto/rand"
		case "new_nonce_hash1":
			gab := new(big.Int).Exp(new(big.Int).Exp(g, new(big.Int).SetBytes(aBytes), mtp.DHPrime), new(big.Int).SetBytes(bBytes), mtp.DHPrime)
			ak := mtp.LeftPad(gab.Bytes(), 256)
			for tries := 0; tries < 1<<24; tries++ {
				h := mtp.NewNonceHash(newNonce, ak, 1)
				if leadingZeros(h) == pl.Zeros {
					break
				}
				for i := 31; i >= 0; i-- {
					newNonce[i]++
					if newNonce[i] != 0 {
						break
					}
				}
			}
			forcedBy = "scripted crypto/rand"
		case "rsa_ciphertext":
			pq := new(big.Int).Mul(new(big.Int).SetUint64(p), new(big.Int).SetUint64(q))
			for tries := 0; tries < 1<<20; tries++ {
				data := c06innerData(pq, new(big.Int).SetUint64(p), new(big.Int).SetUint64(q), nonce, serverNonce, newNonce)
				blk := make([]byte, 255)
				h := sha1.Sum(data)
				copy(blk, append(h[:], data...))
				ct := mtp.RSAPublic(blk, srv.RSA.N, srv.RSA.E)
				if leadingZeros(ct) == pl.Zeros {
					break
				}
				for i := 31; i >= 0; i-- {
					newNonce[i]++
					if newNonce[i] != 0 {
						break
					}
				}
			}
			forcedBy = "scripted crypto/rand (assumes zero padding of the RSA block; verified afterwards)"
		}
	}
	// a server may offer several public keys; the client's one is first, in the middle, last or alone
	offer := []string{"alone", "first-of-3", "middle-of-3", "last-of-3", "second-of-2"}[(idx/3)%5]
	o1, o2 := int64(r.Uint64()), int64(r.Uint64())
	srv.Tamper = func(f *refserver.HSFields) {
		if f.Stage != "resPQ" {
			return
		}
		good := f.Fingerprints[0]
		switch offer {
		case "first-of-3":
			f.Fingerprints = []int64{good, o1, o2}
		case "middle-of-3":
			f.Fingerprints = []int64{o1, good, o2}
		case "last-of-3":
			f.Fingerprints = []int64{o1, o2, good}
		case "second-of-2":
			f.Fingerprints = []int64{o1, good}
		}
	}
	srv.ChooseServerNonce = func() []byte { return serverNonce }
	srv.ChoosePQ = func() (uint64, uint64) { return p, q }
	srv.ChooseA = func() *big.Int { return new(big.Int).SetBytes(aBytes) }
	t.Script(nonce)
	t.Script(newNonce)
	t.Script(bBytes)

	sess := w.sessionPath("s")
	m, err := w.client(srv.Addr, sess, srv)
	if err != nil {
		c.Viol("C06", idx, "new-client", err.Error(), nil)
		return
	}
	// schedule dimension: in a third of the exchanges the handshake goroutine is held between sending a step and
	// waiting for its answer (the answer is then decoded before anybody waits for it), in another third the
	// receive loop is held before handing the answer over
	switch idx % 3 {
	case 1:
		theHooks.start(rand.New(rand.NewSource(int64(idx))), map[string]int{"call.sent": hookAlways + 3000}, nil)
		defer theHooks.stop()
	case 2:
		theHooks.start(rand.New(rand.NewSource(int64(idx))), map[string]int{"recv.frame": hookAlways + 2000, "send.written": 2000}, nil)
		defer theHooks.stop()
	}
	var cerr error
	var pan bool
	var pm, st string
	done := withTimeout(60*time.Second, func() {
		pan, pm, st = wk.Guard(func() { cerr = m.CreateConnection() })
	})
	tag := pl.Kind
	if pl.Kind == "corner" {
		tag = fmt.Sprintf("corner/%s/lz%d", pl.Field, pl.Zeros)
	} else if pl.Kind == "pq" {
		tag = "pq/" + pl.PQKind
	}
	desc := fmt.Sprintf("[%s] nonce=%x server_nonce=%x new_nonce=%x p=%d q=%d offered-keys=%s rsa-e=%d g=%d", tag, nonce, serverNonce, newNonce, p, q, offer, srv.RSA.E, srv.G)
	c.Count("offered_keys."+offer, 1)
	if !done {
		if stalled, dump := isStalled(); stalled {
			c.Viol("C06", idx, "stall/"+tag, "CreateConnection never returned and nothing can move: "+desc, dump)
		} else {
			c.Log.Emit(coreInconclusive("c06: CreateConnection did not return within the watchdog: " + desc))
		}
		return
	}
	if pl.PQKind == "twin" {
		c.Count("informational.pq_square", 1)
		if pan || cerr != nil {
			return // p == q is outside "products of two primes" as any factoriser sees it; informational only
		}
	}
	if pan {
		c.Viol("C06", idx, "panic/"+tag+"/"+st, "CreateConnection panicked: "+wk.Short(pm, 300)+" "+desc, desc)
		return
	}
	if cerr != nil {
		c.Viol("C06", idx, "error/"+tag, "CreateConnection failed against a conformant server: "+wk.Short(cerr.Error(), 300)+" "+desc, desc)
		return
	}
	// what the server derived
	var hs map[string]interface{}
	plainFrames := 0
	w.mu.Lock()
	for _, e := range w.evs {
		if e.Ev == "hs.done" {
			json.Unmarshal(e.Data, &hs)
		}
		if e.Ev == "srv.plain" {
			plainFrames++
		}
	}
	w.mu.Unlock()
	if hs == nil {
		c.Viol("C06", idx, "no-server-completion/"+tag, "client reports success but the server never completed the exchange "+desc, desc)
		return
	}
	srvKey, _ := hex.DecodeString(hs["auth_key"].(string))
	var srvSalt int64
	fmt.Sscan(hs["salt"].(string), &srvSalt)
	if !bytes.Equal(m.GetAuthKey(), srvKey) {
		c.Viol("C06", idx, fmt.Sprintf("auth-key-differs/%s/client_len=%d", tag, len(m.GetAuthKey())), fmt.Sprintf("client key %x… (%d bytes), server key %x… %s", headOf(m.GetAuthKey(), 8), len(m.GetAuthKey()), srvKey[:8], desc), desc)
		return
	}
	if m.GetServerSalt() != srvSalt {
		c.Viol("C06", idx, "salt-differs/"+tag, fmt.Sprintf("client %d server %d %s", m.GetServerSalt(), srvSalt, desc), desc)
	}
	if plainFrames != 3 {
		c.Viol("C06", idx, "plain-frames/"+tag, fmt.Sprintf("%d plaintext frames (want 3)", plainFrames), desc)
	}
	// first encrypted request must be readable by the server and answered
	uid := uint64(r.Uint32()) | uint64(r.Uint32())<<32
	var res interface{}
	var rerr error
	done = withTimeout(30*time.Second, func() {
		pan, pm, st = wk.Guard(func() {
			res, rerr = m.MakeRequest(&telegram.MessagesGetDhConfigParams{Version: int32(uint32(uid)), RandomLength: int32(uint32(uid >> 32))})
		})
	})
	switch {
	case !done:
		if stalled, dump := isStalled(); stalled {
			c.Viol("C06", idx, "probe-stall/"+tag, "first encrypted request never completed "+desc, dump)
		} else {
			c.Log.Emit(coreInconclusive("c06: probe did not return within the watchdog"))
		}
		return
	case pan:
		c.Viol("C06", idx, "probe-panic/"+tag+"/"+st, pm, desc)
		return
	case rerr != nil:
		c.Viol("C06", idx, "probe-error/"+tag, rerr.Error(), desc)
		return
	}
	if nm, ok := res.(*telegram.MessagesDhConfigNotModified); !ok || len(nm.Random) != 8 || leU64(nm.Random) != stamp(uid) {
		c.Viol("C06", idx, "probe-wrong-answer/"+tag, fmt.Sprintf("%T", res), desc)
	}
	// session stored = (key, hash, salt, address)
	var stored *session.Session
	if b, err := os.ReadFile(sess); err != nil {
		c.Viol("C06", idx, "session-not-stored/"+tag, err.Error(), desc)
	} else {
		stored, err = session.NewFromFile(sess).Load()
		if err != nil || !bytes.Equal(stored.Key, srvKey) || !bytes.Equal(stored.Hash, mtp.AuthKeyID(srvKey)) || stored.Salt != srvSalt || stored.Hostname != srv.Addr {
			c.Viol("C06", idx, "session-content/"+tag, fmt.Sprintf("err=%v file=%s", err, wk.Short(string(b), 200)), desc)
		}
	}
	// did the forced corner materialise? (observed values, not intentions)
	obs := map[string][]byte{}
	for k, name := range map[string]string{"nonce": "nonce", "server_nonce": "server_nonce", "new_nonce": "new_nonce", "new_nonce_hash1": "new_nonce_hash1", "g_b": "g_b"} {
		if s, ok := hs[name].(string); ok {
			obs[k], _ = hex.DecodeString(s)
		}
	}
	obs["g_b"] = mtp.LeftPad(obs["g_b"], 256)
	obs["g_ab"] = srvKey
	w.mu.Lock()
	for _, e := range w.evs {
		var d map[string]interface{}
		if e.Ev == "hs.req_dh" {
			json.Unmarshal(e.Data, &d)
			obs["rsa_ciphertext"], _ = hex.DecodeString(d["enc"].(string))
		}
		if e.Ev == "hs.dh_params" {
			json.Unmarshal(e.Data, &d)
			ga, _ := hex.DecodeString(d["g_a"].(string))
			obs["g_a"] = mtp.LeftPad(ga, 256)
		}
	}
	w.mu.Unlock()
	for f, v := range obs {
		if z := leadingZeros(v); z > 0 {
			if z > 2 {
				z = 2
			}
			c.Count(fmt.Sprintf("observed.%s.lz%d", f, z), 1)
			c.Distinct("observed-corner", f, z)
		}
	}
	if pl.Kind == "corner" {
		if leadingZeros(obs[pl.Field]) >= pl.Zeros {
			c.Count("corner.hit", 1)
		} else {
			c.Count("corner.not_forced", 1)
			c.Note("corner_not_forced", fmt.Sprintf("%s lz%d (%s): the client did not draw the scripted value (draws not taken from crypto/rand, or a different RSA padding)", pl.Field, pl.Zeros, forcedBy))
		}
	}
	c.Distinct("exchange", tag, fmt.Sprintf("%x", nonce[:4]))
	if idx < 3 || pl.Kind == "corner" && idx%5 == 0 {
		c.Sample(map[string]interface{}{"plan": pl, "p": p, "q": q, "client_draws": len(t.Snapshot()), "forced_by": forcedBy})
	}
	safeDisconnect(m)
}

func leU64(b []byte) uint64 {
	var v uint64
	for i := 7; i >= 0; i-- {
		v = v<<8 | uint64(b[i])
	}
	return v
}

// safeDisconnect: the harness must not create failures of its own; give in-flight acks a moment, then stop.
func safeDisconnect(m *mtproto.MTProto) {
	time.Sleep(20 * time.Millisecond)
	// bounded: a tree whose Disconnect blocks must not hang the harness's own clean-up (the goroutine is left behind)
	withTimeout(5*time.Second, func() { wk.Guard(func() { m.Disconnect() }) })
}
