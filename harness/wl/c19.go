package wl

import (
	"bytes"
	crand "crypto/rand"
	"encoding/hex"
	"encoding/json"
	"fmt"
	"github.com/xelaj/mtproto/internal/encoding/tl"
	"github.com/xelaj/mtproto/zverif/core"
	"math/big"
	mrand "math/rand"
	"strings"
	"sync"
	"time"

	"github.com/xelaj/mtproto/telegram"
	"github.com/xelaj/mtproto/zverif/ref/mtp"
	"github.com/xelaj/mtproto/zverif/ref/srpsrv"
	"github.com/xelaj/mtproto/zverif/refserver"
	"github.com/xelaj/mtproto/zverif/wk"
)

func init() { wk.Register("c19", c19) }

// explainedWindow: the sink value equals a contiguous window of the bytes served to /repo callers.
func explainedWindow(draws []rngDraw, v []byte) (bool, string) {
	var stream []byte
	for _, d := range draws {
		if bytes.Equal(d.Bytes, v) {
			return true, d.Caller
		}
		stream = append(stream, d.Bytes...)
	}
	return bytes.Contains(stream, v), "window"
}

// explainedExponent: some candidate derivation x of a served chunk satisfies g^x mod p == pub.
func explainedExponent(draws []rngDraw, g int64, pub []byte) (bool, string) {
	return explainedExponentP(draws, g, pub, mtp.DHPrime)
}

func explainedExponentP(draws []rngDraw, g int64, pub []byte, p *big.Int) (bool, string) {
	want := new(big.Int).SetBytes(pub)
	pm1 := new(big.Int).Sub(p, big.NewInt(1))
	half := new(big.Int).Rsh(pm1, 1)
	// a value read in several pieces (a source that returns short reads) is a run of consecutive chunks: windows of the
	// served byte stream that start where a chunk starts
	all := append([]rngDraw{}, draws...)
	var stream []byte
	var starts []int
	for _, d := range draws {
		starts = append(starts, len(stream))
		stream = append(stream, d.Bytes...)
	}
	for i, o := range starts {
		if len(draws[i].Bytes) >= 248 {
			continue // whole values are candidates already
		}
		for _, n := range []int{256, 255, 248} {
			if o+n <= len(stream) {
				all = append(all, rngDraw{Size: n, Bytes: stream[o : o+n], Caller: draws[i].Caller + "+"})
			}
		}
	}
	for _, d := range all {
		if len(d.Bytes) < 32 {
			continue
		}
		x := new(big.Int).SetBytes(d.Bytes)
		cands := []*big.Int{x, new(big.Int).Mod(x, p), new(big.Int).Mod(x, pm1), new(big.Int).Mod(x, half)}
		// top bits masked as crypto/rand.Int does
		for _, bits := range []int{2048, 2047} {
			m := new(big.Int).Set(x)
			for i := m.BitLen(); i > bits; i-- {
				m.SetBit(m, i-1, 0)
			}
			cands = append(cands, m)
		}
		for _, cnd := range cands {
			if new(big.Int).Exp(big.NewInt(g), cnd, p).Cmp(want) == 0 {
				return true, d.Caller
			}
		}
	}
	return false, ""
}

func c19(c *wk.Ctx) {
	// the process-wide source, before the harness interposes itself: whatever package of the library has been
	// initialised by now must have left crypto/rand.Reader alone (a wrapper installed by an init() could answer
	// from anywhere when the OS source is slow — a path no run takes)
	if tee == nil {
		c.Count("process_source.checked", 1)
		if tn := fmt.Sprintf("%T", crand.Reader); tn != "*rand.reader" && tn != "*rand.Reader" && !strings.HasPrefix(tn, "*rand.") && !strings.HasPrefix(tn, "rand.") {
			c.Viol("C19", 0, "process-source-replaced", fmt.Sprintf("crypto/rand.Reader is a %s when the program starts: the library replaced the process-wide random source during initialisation", tn), tn)
		}
		c.Note("process_source_type", fmt.Sprintf("%T", crand.Reader))
	}
	t := installTee()
	idx := 0
	n := c.Pick(4, 30)
	for k := 0; k < n; k++ {
		if c.Mine(idx) {
			c.Begin(idx, fmt.Sprintf("key exchange %d", k))
			t.Reset()
			c19exchange(c, idx, c.Rand(idx), t, k%2 == 1)
		}
		idx++
	}
	for k := 0; k < n; k++ {
		if c.Mine(idx) {
			c.Begin(idx, fmt.Sprintf("srp %d", k))
			t.Reset()
			c19srp(c, idx, c.Rand(idx), t)
		}
		idx++
	}
	// a source that hands out its bytes in small pieces (an io.Reader may return fewer bytes than asked for)
	for k := 0; k < c.Pick(4, 16); k++ {
		if c.Mine(idx) {
			chunk := []int{1, 7, 16, 100}[k%4]
			c.Begin(idx, fmt.Sprintf("short reads of %d bytes", chunk))
			t.Reset()
			t.ShortReads(chunk)
			if k%2 == 0 {
				c19exchange(c, idx, c.Rand(idx), t, false)
			} else {
				c19srp(c, idx, c.Rand(idx), t)
			}
			t.Reset()
			c.Count("short_read_cases", 1)
		}
		idx++
	}
	// several key exchanges at once (an application with several accounts or data centres)
	for k := 0; k < c.Pick(3, 20); k++ {
		if c.Mine(idx) {
			c.Begin(idx, fmt.Sprintf("concurrent key exchanges %d", k))
			t.Reset()
			c19concurrent(c, idx, c.Rand(idx), t, 3+k%4)
			t.Reset()
		}
		idx++
	}
	// the nonce primitives themselves, from several goroutines at once (what concurrent key exchanges do, without
	// the milliseconds of arithmetic between the draws): every value is a chunk the source served, none repeats
	for k := 0; k < c.Pick(2, 12); k++ {
		if c.Mine(idx) {
			c.Begin(idx, fmt.Sprintf("concurrent nonce draws %d", k))
			t.Reset()
			vals := make([][][]byte, 8)
			res := concurrently(8, int64(idx), func(g int, _ *mrand.Rand) string {
				for i := 0; i < 300; i++ {
					var v []byte
					if (g+i)%2 == 0 {
						v = mtp.LeftPad(tl.RandomInt128().Bytes(), 16)
					} else {
						v = mtp.LeftPad(tl.RandomInt256().Bytes(), 32)
					}
					vals[g] = append(vals[g], v)
				}
				return ""
			})
			draws := t.Snapshot()
			served := map[string]bool{}
			for _, d := range draws {
				served[string(d.Bytes)] = true
			}
			seen := map[string]bool{}
			bad := ""
			for g := range vals {
				for _, v := range vals[g] {
					switch {
					case !served[string(v)]:
						bad = fmt.Sprintf("unexplained: a %d-byte nonce %x returned to goroutine %d is not a chunk the OS random source served (8 goroutines drawing at once)", len(v), v, g)
					case seen[string(v)]:
						bad = fmt.Sprintf("repeated: the nonce %x was handed out twice", v)
					}
					seen[string(v)] = true
				}
			}
			for _, m := range res {
				if m != "" {
					bad = m
				}
			}
			c.Count("evaluations", 8*300)
			c.Count("concurrent.nonce_draws", 8*300)
			if bad != "" {
				c.Viol("C19", idx, "concurrent/nonce-"+strings.SplitN(bad, ":", 2)[0], bad, nil)
			}
			t.Reset()
			c.Distinct("concurrent-draws", k)
		}
		idx++
	}
	// fault at the source: when the OS random source fails at the k-th draw, no secret may be produced from anywhere
	// else — the exchange must stop (error or panic on the caller's goroutine) before a secret that the source did
	// not serve reaches a sink
	for k := 0; k < c.Pick(6, 18); k++ {
		if c.Mine(idx) {
			c.Begin(idx, fmt.Sprintf("source failure at draw %d", k%3))
			t.Reset()
			t.FailFrom(k % 3)
			c19sourceFailure(c, idx, c.Rand(idx), t, k%3)
			t.Reset()
		}
		idx++
	}
	// the reseed clause: identical seeding of the global math/rand AFTER the client object exists must not
	// reproduce the nonces (differential pair)
	for k := 0; k < c.Pick(2, 10); k++ {
		if c.Mine(idx) {
			c.Begin(idx, fmt.Sprintf("reseed pair %d", k))
			t.Reset()
			n1, nn1, gb1 := c19seeded(c, idx, int64(1000+k))
			n2, nn2, gb2 := c19seeded(c, idx, int64(1000+k))
			if n1 != "" && n1 == n2 {
				c.Viol("C19", idx, "reproducible/nonce", "two key exchanges after identical math/rand seeding produced the same nonce "+n1, nil)
			}
			if nn1 != "" && nn1 == nn2 {
				c.Viol("C19", idx, "reproducible/new_nonce", "two key exchanges after identical math/rand seeding produced the same new_nonce", nil)
			}
			if gb1 != "" && gb1 == gb2 {
				c.Viol("C19", idx, "reproducible/dh-exponent", "two key exchanges after identical math/rand seeding produced the same g_b", nil)
			}
			c.Distinct("reseed", k, n1 != "")
		}
		idx++
	}
}

func hsEvents(w *world) (nonce, newNonce, gb string, ok bool) {
	w.mu.Lock()
	defer w.mu.Unlock()
	for _, e := range w.evs {
		if e.Ev == "hs.done" {
			var d map[string]interface{}
			json.Unmarshal(e.Data, &d)
			nonce, _ = d["nonce"].(string)
			newNonce, _ = d["new_nonce"].(string)
			gb, _ = d["g_b"].(string)
			ok = true
		}
	}
	return
}

func c19exchange(c *wk.Ctx, idx int, r *mrand.Rand, t *rngTee, reconnect bool) {
	w := newWorld(c, idx)
	defer w.close()
	srv := w.server(refserver.HandlerFunc(func(cn *refserver.Conn, in *mtp.Inner) {}))
	m, err := w.client(srv.Addr, w.sessionPath("s"), srv)
	if err != nil {
		c.Viol("C19", idx, "setup", err.Error(), nil)
		return
	}
	var cerr error
	if !withTimeout(60*time.Second, func() { wk.Guard(func() { cerr = m.CreateConnection() }) }) || cerr != nil {
		c.Log.Emit(coreInconclusive(fmt.Sprintf("c19: key exchange did not complete (%v)", cerr)))
		return
	}
	defer safeDisconnect(m)
	nonce, newNonce, gb, ok := hsEvents(w)
	if !ok {
		c.Log.Emit(coreInconclusive("c19: no hs.done event"))
		return
	}
	draws := t.Snapshot()
	for _, d := range draws {
		c.Count("draws.by."+strings.ReplaceAll(d.Caller, "<", "←"), 1)
	}
	c.Count("draws.total", int64(len(draws)))
	nb, _ := hex.DecodeString(nonce)
	nnb, _ := hex.DecodeString(newNonce)
	gbb, _ := hex.DecodeString(gb)
	if ok, _ := explainedWindow(draws, nb); !ok {
		c.Viol("C19", idx, "unexplained/nonce", fmt.Sprintf("the nonce %s sent in req_pq is not among the %d chunks the OS random source served to the client", nonce, len(draws)), drawsBrief(draws))
	}
	if ok, _ := explainedWindow(draws, nnb); !ok {
		c.Viol("C19", idx, "unexplained/new_nonce", fmt.Sprintf("the new_nonce %s (decrypted by the server) is not among the chunks the OS random source served", newNonce), drawsBrief(draws))
	}
	if ok, _ := explainedExponent(draws, int64(srv.G), gbb); !ok {
		c.Viol("C19", idx, "unexplained/dh-exponent", "no chunk served by the OS random source explains g_b (g^x mod p for x = chunk, chunk mod p, mod p-1, mod (p-1)/2, top bits masked)", drawsBrief(draws))
	}
	c.Distinct("exchange", nonce)
	if idx < 2 {
		c.Sample(map[string]interface{}{"sink_nonce": nonce, "sink_new_nonce": newNonce, "draws": drawsBrief(draws)})
	}
}

// c19concurrent: n clients exchange keys at the same time; every nonce and new_nonce a server sees must be bytes the
// OS source served, and no two of them may share an 8-byte run.
func c19concurrent(c *wk.Ctx, idx int, r *mrand.Rand, t *rngTee, n int) {
	worlds := make([]*world, n)
	results := make([]string, n)
	var wg sync.WaitGroup
	for i := 0; i < n; i++ {
		worlds[i] = newWorld(c, idx*100+i)
		defer worlds[i].close()
	}
	for i := 0; i < n; i++ {
		wg.Add(1)
		go func(i int) {
			defer wg.Done()
			w := worlds[i]
			srv := w.server(refserver.HandlerFunc(func(cn *refserver.Conn, in *mtp.Inner) {}))
			m, err := w.client(srv.Addr, w.sessionPath("s"), srv)
			if err != nil {
				results[i] = "setup: " + err.Error()
				return
			}
			var cerr error
			if !withTimeout(60*time.Second, func() { wk.Guard(func() { cerr = m.CreateConnection() }) }) {
				results[i] = "did not return"
				return
			}
			defer safeDisconnect(m)
			if cerr != nil {
				results[i] = "error: " + wk.Short(cerr.Error(), 200)
			}
		}(i)
	}
	wg.Wait()
	draws := t.Snapshot()
	var secrets [][]byte
	for i, w := range worlds {
		// what reached the wire, whether or not the exchange completed
		w.mu.Lock()
		evs := append([]core.Event{}, w.evs...)
		w.mu.Unlock()
		for _, e := range evs {
			var d map[string]interface{}
			if e.Ev != "hs.req_pq" && e.Ev != "hs.done" {
				continue
			}
			json.Unmarshal(e.Data, &d)
			for _, f := range []string{"nonce", "new_nonce"} {
				hx, _ := d[f].(string)
				v, _ := hex.DecodeString(hx)
				if len(v) == 0 || (e.Ev == "hs.done" && f == "nonce") {
					continue
				}
				if ok, _ := explainedWindow(draws, v); !ok {
					c.Viol("C19", idx, "concurrent/unexplained/"+f, fmt.Sprintf("%d key exchanges at once: the %s %x seen by server %d is not made of bytes the OS random source served", n, f, v, i), drawsBrief(draws))
					return
				}
				if bytes.Equal(v, make([]byte, len(v))) {
					c.Viol("C19", idx, "concurrent/zero/"+f, fmt.Sprintf("%d key exchanges at once: an all-zero %s reached server %d", n, f, i), nil)
					return
				}
				secrets = append(secrets, v)
			}
		}
		if results[i] != "" {
			c.Count("concurrent.exchanges_not_completed", 1)
			c.Note("concurrent_exchange_not_completed", results[i])
		}
	}
	seen := map[string]int{}
	for si, v := range secrets {
		for o := 0; o+8 <= len(v); o++ {
			k := string(v[o : o+8])
			if prev, dup := seen[k]; dup && prev != si {
				c.Viol("C19", idx, "concurrent/shared-bytes", fmt.Sprintf("%d key exchanges at once: two of the nonces that reached servers share the 8-byte run %x", n, v[o:o+8]), nil)
				return
			}
			seen[k] = si
		}
	}
	c.Count("concurrent.exchanges", int64(n))
	c.Distinct("concurrent", n, len(secrets))
}

func drawsBrief(d []rngDraw) []string {
	var out []string
	for _, x := range d {
		out = append(out, fmt.Sprintf("%d bytes %x… by %s", x.Size, headOf(x.Bytes, 6), x.Caller))
	}
	return out
}

func c19srp(c *wk.Ctx, idx int, r *mrand.Rand, t *rngTee) {
	p := mtp.DHPrime
	g := 3
	// a server chooses the group: besides the usual prime, moduli of other shapes that pass the library's validity
	// checks (a Mersenne-like 2^1984-1, a random odd 2048-bit number, a 2040-bit one)
	switch idx % 4 {
	case 1:
		p = new(big.Int).Sub(new(big.Int).Lsh(big.NewInt(1), 1984), big.NewInt(1))
	case 2:
		b := rbytes(r, 256)
		b[0] |= 0x80
		b[255] |= 1
		p = new(big.Int).SetBytes(b)
	case 3:
		b := rbytes(r, 255)
		b[0] |= 0x80
		b[254] |= 1
		p = new(big.Int).SetBytes(b)
	}
	s1, s2 := rbytes(r, 16), rbytes(r, 16)
	srv := srpsrv.NewServer(p, g, s1, s2, []byte("pw"))
	srv.SetB(new(big.Int).SetBytes(rbytes(r, 256)))
	ap := &telegram.AccountPassword{HasPassword: true, SRPB: srpsrv.Pad(srv.B.Bytes()), SRPID: 1,
		CurrentAlgo: &telegram.PasswordKdfAlgoSHA256SHA256PBKDF2HMACSHA512iter100000SHA256ModPow{Salt1: s1, Salt2: s2, G: int32(g), P: p.Bytes()}}
	// account.password carries secure_random, bytes of the SERVER's choosing (here: of the harness PRNG, never
	// served by the interposed OS source): 0, 32, 256 or 512 of them. Whatever the client does with them, its
	// ephemeral must still be explained by what the OS source served
	ap.SecureRandom = rbytes(r, []int{256, 512, 256, 0, 32, 256, 1024, 0}[idx%8])
	c.Count(fmt.Sprintf("srp.secure_random_len_%d", len(ap.SecureRandom)), 1)
	var res telegram.InputCheckPasswordSRP
	var err error
	pan, pm, _ := wk.Guard(func() { res, err = telegram.GetInputCheckPassword("pw", ap) })
	if pan || err != nil {
		c.Log.Emit(coreInconclusive(fmt.Sprint("c19 srp: ", pm, err)))
		return
	}
	obj, ok := res.(*telegram.InputCheckPasswordSRPObj)
	if !ok {
		return
	}
	draws := t.Snapshot()
	for _, d := range draws {
		c.Count("draws.by."+strings.ReplaceAll(d.Caller, "<", "←"), 1)
	}
	c.Count(fmt.Sprintf("srp.modulus_shape_%d", idx%4), 1)
	if ok, _ := explainedExponentP(draws, int64(g), obj.A, p); !ok {
		c.Viol("C19", idx, "unexplained/srp-ephemeral", "no chunk served by the OS random source explains the SRP value A", drawsBrief(draws))
	}
	c.Distinct("srp", fmt.Sprintf("%x", headOf(obj.A, 8)))
}

func c19seeded(c *wk.Ctx, idx int, seed int64) (string, string, string) {
	w := newWorld(c, idx)
	defer w.close()
	srv := w.server(refserver.HandlerFunc(func(cn *refserver.Conn, in *mtp.Inner) {}))
	m, err := w.client(srv.Addr, w.sessionPath("s"), srv)
	if err != nil {
		return "", "", ""
	}
	mrand.Seed(seed) // after the client object exists
	var cerr error
	if !withTimeout(60*time.Second, func() { wk.Guard(func() { cerr = m.CreateConnection() }) }) || cerr != nil {
		return "", "", ""
	}
	defer safeDisconnect(m)
	n, nn, gb, _ := hsEvents(w)
	return n, nn, gb
}

func c19sourceFailure(c *wk.Ctx, idx int, r *mrand.Rand, t *rngTee, failAt int) {
	w := newWorld(c, idx)
	defer w.close()
	srv := w.server(refserver.HandlerFunc(func(cn *refserver.Conn, in *mtp.Inner) {}))
	m, err := w.client(srv.Addr, w.sessionPath("s"), srv)
	if err != nil {
		return
	}
	mrand.Seed(int64(4242 + failAt)) // whatever a fallback generator might be, make it reproducible
	var cerr error
	var pan bool
	done := withTimeout(30*time.Second, func() { pan, _, _ = wk.Guard(func() { cerr = m.CreateConnection() }) })
	defer safeDisconnect(m)
	draws := t.Snapshot()
	// what reached the sinks?
	var nonce, newNonce, gb string
	w.mu.Lock()
	for _, e := range w.evs {
		var d map[string]interface{}
		json.Unmarshal(e.Data, &d)
		switch e.Ev {
		case "hs.req_pq":
			nonce, _ = d["nonce"].(string)
		case "hs.req_dh":
			newNonce, _ = d["new_nonce"].(string)
		case "hs.done":
			gb, _ = d["g_b"].(string)
		}
	}
	w.mu.Unlock()
	c.Count("source_failure.cases", 1)
	if pan || cerr != nil {
		c.Count("source_failure.exchange_stopped", 1)
	}
	_ = done
	check := func(name, hexv string, exponent bool) {
		if hexv == "" {
			return
		}
		b, _ := hex.DecodeString(hexv)
		ok := false
		if exponent {
			ok, _ = explainedExponent(draws, int64(srv.G), b)
		} else {
			ok, _ = explainedWindow(draws, b)
		}
		if !ok {
			c.Viol("C19", idx, "unexplained-after-source-failure/"+name, fmt.Sprintf("the OS random source failed at draw %d, yet a %s reached the wire that the source never served (a fallback generator is in use)", failAt, name), drawsBrief(draws))
		}
	}
	check("nonce", nonce, false)
	check("new_nonce", newNonce, false)
	check("dh-exponent", gb, true)
	c.Distinct("source-failure", failAt, nonce != "", newNonce != "", gb != "")
}
