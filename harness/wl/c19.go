package wl

import (
	"bytes"
	"encoding/hex"
	"encoding/json"
	"fmt"
	"math/big"
	mrand "math/rand"
	"strings"
	"time"

	"github.com/xelaj/mtproto/telegram"
	"github.com/xelaj/mtproto/zverif/ref/mtp"
	"github.com/xelaj/mtproto/zverif/ref/srpsrv"
	"github.com/xelaj/mtproto/zverif/refserver"
	"github.com/xelaj/mtproto/zverif/wk"
)

func init() { wk.Register("c19", c19) }

// explainedWindow: the sink value equals a contiguous window of the bytes served to /repo callers.
func explainedWindow(draws []rngDraw, v []byte) (bool, string) {
	var stream []byte
	for _, d := range draws {
		if bytes.Equal(d.Bytes, v) {
			return true, d.Caller
		}
		stream = append(stream, d.Bytes...)
	}
	return bytes.Contains(stream, v), "window"
}

// explainedExponent: some candidate derivation x of a served chunk satisfies g^x mod p == pub.
func explainedExponent(draws []rngDraw, g int64, pub []byte) (bool, string) {
	return explainedExponentP(draws, g, pub, mtp.DHPrime)
}

func explainedExponentP(draws []rngDraw, g int64, pub []byte, p *big.Int) (bool, string) {
	want := new(big.Int).SetBytes(pub)
	pm1 := new(big.Int).Sub(p, big.NewInt(1))
	half := new(big.Int).Rsh(pm1, 1)
	for _, d := range draws {
		if len(d.Bytes) < 32 {
			continue
		}
		x := new(big.Int).SetBytes(d.Bytes)
		cands := []*big.Int{x, new(big.Int).Mod(x, p), new(big.Int).Mod(x, pm1), new(big.Int).Mod(x, half)}
		// top bits masked as crypto/rand.Int does
		for _, bits := range []int{2048, 2047} {
			m := new(big.Int).Set(x)
			for i := m.BitLen(); i > bits; i-- {
				m.SetBit(m, i-1, 0)
			}
			cands = append(cands, m)
		}
		for _, cnd := range cands {
			if new(big.Int).Exp(big.NewInt(g), cnd, p).Cmp(want) == 0 {
				return true, d.Caller
			}
		}
	}
	return false, ""
}

func c19(c *wk.Ctx) {
	t := installTee()
	idx := 0
	n := c.Pick(4, 30)
	for k := 0; k < n; k++ {
		if c.Mine(idx) {
			c.Begin(idx, fmt.Sprintf("key exchange %d", k))
			t.Reset()
			c19exchange(c, idx, c.Rand(idx), t, k%2 == 1)
		}
		idx++
	}
	for k := 0; k < n; k++ {
		if c.Mine(idx) {
			c.Begin(idx, fmt.Sprintf("srp %d", k))
			t.Reset()
			c19srp(c, idx, c.Rand(idx), t)
		}
		idx++
	}
	// fault at the source: when the OS random source fails at the k-th draw, no secret may be produced from anywhere
	// else — the exchange must stop (error or panic on the caller's goroutine) before a secret that the source did
	// not serve reaches a sink
	for k := 0; k < c.Pick(6, 18); k++ {
		if c.Mine(idx) {
			c.Begin(idx, fmt.Sprintf("source failure at draw %d", k%3))
			t.Reset()
			t.FailFrom(k % 3)
			c19sourceFailure(c, idx, c.Rand(idx), t, k%3)
			t.Reset()
		}
		idx++
	}
	// the reseed clause: identical seeding of the global math/rand AFTER the client object exists must not
	// reproduce the nonces (differential pair)
	for k := 0; k < c.Pick(2, 10); k++ {
		if c.Mine(idx) {
			c.Begin(idx, fmt.Sprintf("reseed pair %d", k))
			t.Reset()
			n1, nn1, gb1 := c19seeded(c, idx, int64(1000+k))
			n2, nn2, gb2 := c19seeded(c, idx, int64(1000+k))
			if n1 != "" && n1 == n2 {
				c.Viol("C19", idx, "reproducible/nonce", "two key exchanges after identical math/rand seeding produced the same nonce "+n1, nil)
			}
			if nn1 != "" && nn1 == nn2 {
				c.Viol("C19", idx, "reproducible/new_nonce", "two key exchanges after identical math/rand seeding produced the same new_nonce", nil)
			}
			if gb1 != "" && gb1 == gb2 {
				c.Viol("C19", idx, "reproducible/dh-exponent", "two key exchanges after identical math/rand seeding produced the same g_b", nil)
			}
			c.Distinct("reseed", k, n1 != "")
		}
		idx++
	}
}

func hsEvents(w *world) (nonce, newNonce, gb string, ok bool) {
	w.mu.Lock()
	defer w.mu.Unlock()
	for _, e := range w.evs {
		if e.Ev == "hs.done" {
			var d map[string]interface{}
			json.Unmarshal(e.Data, &d)
			nonce, _ = d["nonce"].(string)
			newNonce, _ = d["new_nonce"].(string)
			gb, _ = d["g_b"].(string)
			ok = true
		}
	}
	return
}

func c19exchange(c *wk.Ctx, idx int, r *mrand.Rand, t *rngTee, reconnect bool) {
	w := newWorld(c, idx)
	defer w.close()
	srv := w.server(refserver.HandlerFunc(func(cn *refserver.Conn, in *mtp.Inner) {}))
	m, err := w.client(srv.Addr, w.sessionPath("s"), srv)
	if err != nil {
		c.Viol("C19", idx, "setup", err.Error(), nil)
		return
	}
	var cerr error
	if !withTimeout(60*time.Second, func() { wk.Guard(func() { cerr = m.CreateConnection() }) }) || cerr != nil {
		c.Log.Emit(coreInconclusive(fmt.Sprintf("c19: key exchange did not complete (%v)", cerr)))
		return
	}
	defer safeDisconnect(m)
	nonce, newNonce, gb, ok := hsEvents(w)
	if !ok {
		c.Log.Emit(coreInconclusive("c19: no hs.done event"))
		return
	}
	draws := t.Snapshot()
	for _, d := range draws {
		c.Count("draws.by."+strings.ReplaceAll(d.Caller, "<", "←"), 1)
	}
	c.Count("draws.total", int64(len(draws)))
	nb, _ := hex.DecodeString(nonce)
	nnb, _ := hex.DecodeString(newNonce)
	gbb, _ := hex.DecodeString(gb)
	if ok, _ := explainedWindow(draws, nb); !ok {
		c.Viol("C19", idx, "unexplained/nonce", fmt.Sprintf("the nonce %s sent in req_pq is not among the %d chunks the OS random source served to the client", nonce, len(draws)), drawsBrief(draws))
	}
	if ok, _ := explainedWindow(draws, nnb); !ok {
		c.Viol("C19", idx, "unexplained/new_nonce", fmt.Sprintf("the new_nonce %s (decrypted by the server) is not among the chunks the OS random source served", newNonce), drawsBrief(draws))
	}
	if ok, _ := explainedExponent(draws, int64(srv.G), gbb); !ok {
		c.Viol("C19", idx, "unexplained/dh-exponent", "no chunk served by the OS random source explains g_b (g^x mod p for x = chunk, chunk mod p, mod p-1, mod (p-1)/2, top bits masked)", drawsBrief(draws))
	}
	c.Distinct("exchange", nonce)
	if idx < 2 {
		c.Sample(map[string]interface{}{"sink_nonce": nonce, "sink_new_nonce": newNonce, "draws": drawsBrief(draws)})
	}
}

func drawsBrief(d []rngDraw) []string {
	var out []string
	for _, x := range d {
		out = append(out, fmt.Sprintf("%d bytes %x… by %s", x.Size, headOf(x.Bytes, 6), x.Caller))
	}
	return out
}

func c19srp(c *wk.Ctx, idx int, r *mrand.Rand, t *rngTee) {
	p := mtp.DHPrime
	g := 3
	// a server chooses the group: besides the usual prime, moduli of other shapes that pass the library's validity
	// checks (a Mersenne-like 2^1984-1, a random odd 2048-bit number, a 2040-bit one)
	switch idx % 4 {
	case 1:
		p = new(big.Int).Sub(new(big.Int).Lsh(big.NewInt(1), 1984), big.NewInt(1))
	case 2:
		b := rbytes(r, 256)
		b[0] |= 0x80
		b[255] |= 1
		p = new(big.Int).SetBytes(b)
	case 3:
		b := rbytes(r, 255)
		b[0] |= 0x80
		b[254] |= 1
		p = new(big.Int).SetBytes(b)
	}
	s1, s2 := rbytes(r, 16), rbytes(r, 16)
	srv := srpsrv.NewServer(p, g, s1, s2, []byte("pw"))
	srv.SetB(new(big.Int).SetBytes(rbytes(r, 256)))
	ap := &telegram.AccountPassword{HasPassword: true, SRPB: srpsrv.Pad(srv.B.Bytes()), SRPID: 1,
		CurrentAlgo: &telegram.PasswordKdfAlgoSHA256SHA256PBKDF2HMACSHA512iter100000SHA256ModPow{Salt1: s1, Salt2: s2, G: int32(g), P: p.Bytes()}}
	var res telegram.InputCheckPasswordSRP
	var err error
	pan, pm, _ := wk.Guard(func() { res, err = telegram.GetInputCheckPassword("pw", ap) })
	if pan || err != nil {
		c.Log.Emit(coreInconclusive(fmt.Sprint("c19 srp: ", pm, err)))
		return
	}
	obj, ok := res.(*telegram.InputCheckPasswordSRPObj)
	if !ok {
		return
	}
	draws := t.Snapshot()
	for _, d := range draws {
		c.Count("draws.by."+strings.ReplaceAll(d.Caller, "<", "←"), 1)
	}
	c.Count(fmt.Sprintf("srp.modulus_shape_%d", idx%4), 1)
	if ok, _ := explainedExponentP(draws, int64(g), obj.A, p); !ok {
		c.Viol("C19", idx, "unexplained/srp-ephemeral", "no chunk served by the OS random source explains the SRP value A", drawsBrief(draws))
	}
	c.Distinct("srp", fmt.Sprintf("%x", headOf(obj.A, 8)))
}

func c19seeded(c *wk.Ctx, idx int, seed int64) (string, string, string) {
	w := newWorld(c, idx)
	defer w.close()
	srv := w.server(refserver.HandlerFunc(func(cn *refserver.Conn, in *mtp.Inner) {}))
	m, err := w.client(srv.Addr, w.sessionPath("s"), srv)
	if err != nil {
		return "", "", ""
	}
	mrand.Seed(seed) // after the client object exists
	var cerr error
	if !withTimeout(60*time.Second, func() { wk.Guard(func() { cerr = m.CreateConnection() }) }) || cerr != nil {
		return "", "", ""
	}
	defer safeDisconnect(m)
	n, nn, gb, _ := hsEvents(w)
	return n, nn, gb
}

func c19sourceFailure(c *wk.Ctx, idx int, r *mrand.Rand, t *rngTee, failAt int) {
	w := newWorld(c, idx)
	defer w.close()
	srv := w.server(refserver.HandlerFunc(func(cn *refserver.Conn, in *mtp.Inner) {}))
	m, err := w.client(srv.Addr, w.sessionPath("s"), srv)
	if err != nil {
		return
	}
	mrand.Seed(int64(4242 + failAt)) // whatever a fallback generator might be, make it reproducible
	var cerr error
	var pan bool
	done := withTimeout(30*time.Second, func() { pan, _, _ = wk.Guard(func() { cerr = m.CreateConnection() }) })
	defer safeDisconnect(m)
	draws := t.Snapshot()
	// what reached the sinks?
	var nonce, newNonce, gb string
	w.mu.Lock()
	for _, e := range w.evs {
		var d map[string]interface{}
		json.Unmarshal(e.Data, &d)
		switch e.Ev {
		case "hs.req_pq":
			nonce, _ = d["nonce"].(string)
		case "hs.req_dh":
			newNonce, _ = d["new_nonce"].(string)
		case "hs.done":
			gb, _ = d["g_b"].(string)
		}
	}
	w.mu.Unlock()
	c.Count("source_failure.cases", 1)
	if pan || cerr != nil {
		c.Count("source_failure.exchange_stopped", 1)
	}
	_ = done
	check := func(name, hexv string, exponent bool) {
		if hexv == "" {
			return
		}
		b, _ := hex.DecodeString(hexv)
		ok := false
		if exponent {
			ok, _ = explainedExponent(draws, int64(srv.G), b)
		} else {
			ok, _ = explainedWindow(draws, b)
		}
		if !ok {
			c.Viol("C19", idx, "unexplained-after-source-failure/"+name, fmt.Sprintf("the OS random source failed at draw %d, yet a %s reached the wire that the source never served (a fallback generator is in use)", failAt, name), drawsBrief(draws))
		}
	}
	check("nonce", nonce, false)
	check("new_nonce", newNonce, false)
	check("dh-exponent", gb, true)
	c.Distinct("source-failure", failAt, nonce != "", newNonce != "", gb != "")
}
