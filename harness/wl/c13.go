package wl

import (
	"fmt"
	"os"
	"reflect"
	"regexp"
	"sort"
	"strconv"
	"strings"

	"github.com/xelaj/mtproto/internal/encoding/tl"
	"github.com/xelaj/mtproto/zverif/bridge"
	ts "github.com/xelaj/mtproto/zverif/ref/tlschema"
	"github.com/xelaj/mtproto/zverif/wk"
)

func init() { wk.Register("c13static", c13static) }

var tObject = reflect.TypeOf((*tl.Object)(nil)).Elem()

// kindOK says whether Go type g can be the translation of schema type t.
func c13kindOK(t *ts.TypeExpr, g reflect.Type, s *ts.Schema) (bool, string) {
	if t.Vector {
		if g.Kind() != reflect.Slice || g == reflect.TypeOf([]byte{}) {
			return false, "vector must be a slice"
		}
		return c13kindOK(t.Elem, g.Elem(), s)
	}
	switch t.Name {
	case "int":
		return g.Kind() == reflect.Int32, "int must be int32"
	case "long":
		return g.Kind() == reflect.Int64, "long must be int64"
	case "double":
		return g.Kind() == reflect.Float64, "double must be float64"
	case "string":
		return g.Kind() == reflect.String, "string must be string"
	case "bytes":
		return g == reflect.TypeOf([]byte{}), "bytes must be []byte"
	case "Bool", "true":
		return g.Kind() == reflect.Bool, "Bool/true must be bool"
	case "int128":
		return g == reflect.TypeOf(&tl.Int128{}), "int128 must be *tl.Int128"
	case "int256":
		return g == reflect.TypeOf(&tl.Int256{}), "int256 must be *tl.Int256"
	case "Object", "!X", "X":
		return g == tObject, "Object/!X must be tl.Object"
	}
	cs := s.ByResult[t.Name]
	if t.Bare {
		if d := s.ByName[t.Name]; d != nil {
			cs = []*ts.Def{d}
		}
	}
	if len(cs) == 0 {
		return false, "schema type " + t.Name + " has no constructors"
	}
	var gts []reflect.Type
	for _, c := range cs {
		gt, ok := bridge.Objects[c.ID]
		if !ok {
			return false, "constructor " + c.Name + " not registered"
		}
		gts = append(gts, gt)
	}
	switch g.Kind() {
	case reflect.Uint32: // enum: every constructor is a value of this very type
		for _, gt := range gts {
			if gt != g {
				return false, fmt.Sprintf("enum field type %v but constructor type %v", g, gt)
			}
		}
		return true, ""
	case reflect.Ptr:
		if len(gts) == 1 && gts[0] == g {
			return true, ""
		}
		return false, fmt.Sprintf("pointer field %v does not match the constructors of %s", g, t.Name)
	case reflect.Interface:
		if g == tObject {
			return false, "boxed type " + t.Name + " translated to the catch-all tl.Object"
		}
		for _, gt := range gts {
			if !gt.Implements(g) {
				return false, fmt.Sprintf("%v does not implement %v", gt, g)
			}
		}
		return true, ""
	}
	return false, fmt.Sprintf("boxed type %s translated to %v", t.Name, g)
}

var reTag = regexp.MustCompile(`^flag:(\d+)(,encoded_in_bitflags)?$`)

// c13compare: one definition against its Go type.
func c13compare(c *wk.Ctx, idx int, d *ts.Def, s *ts.Schema, gt reflect.Type, strict bool) {
	viol := func(kind, detail string) {
		if strict {
			c.Viol("C13", idx, kind+"/"+d.Name, d.Name+": "+detail, d.Line)
		} else {
			c.Count("informational."+kind, 1)
			c.Note("informational", d.Name+": "+kind+": "+detail)
		}
	}
	if gt.Kind() == reflect.Uint32 {
		if len(d.NonFlagParams()) != 0 {
			viol("layout", "registered as an enum value but the schema line has parameters")
		}
		o := reflect.ValueOf(d.ID).Convert(gt).Interface().(tl.Object)
		if o.CRC() != d.ID {
			viol("id", fmt.Sprintf("CRC() %#08x, schema %#08x", o.CRC(), d.ID))
		}
		return
	}
	if gt.Kind() != reflect.Ptr || gt.Elem().Kind() != reflect.Struct {
		if HandCodec[d.Name] {
			c.Count("hand_codec."+d.Name, 1)
			return
		}
		viol("layout", fmt.Sprintf("registered type %v is not a struct pointer", gt))
		return
	}
	obj := reflect.New(gt.Elem()).Interface().(tl.Object)
	if obj.CRC() != d.ID {
		viol("id", fmt.Sprintf("CRC() %#08x, schema says %#08x", obj.CRC(), d.ID))
	}
	if crc := ts.CanonicalCRC(d.Line, s); crc != d.ID {
		viol("schema-crc", fmt.Sprintf("written id %#08x, CRC-32 of the canonical line %#08x", d.ID, crc))
	}
	if HandCodec[d.Name] {
		c.Count("hand_codec."+d.Name, 1)
		return
	}
	nf := d.NonFlagParams()
	st := gt.Elem()
	if st.NumField() != len(nf) {
		viol("layout", fmt.Sprintf("%d struct fields, %d parameters", st.NumField(), len(nf)))
		return
	}
	for i, p := range nf {
		f := st.Field(i)
		if ok, why := c13kindOK(p.Type, f.Type, s); !ok {
			viol("field-type", fmt.Sprintf("parameter %d %s:%s is field %s %v: %s", i, p.Name, p.Type, f.Name, f.Type, why))
		}
		tag := f.Tag.Get("tl")
		if p.FlagBit < 0 {
			if tag != "" {
				viol("flag-bit", fmt.Sprintf("unconditional parameter %s has tag %q", p.Name, tag))
			}
			continue
		}
		m := reTag.FindStringSubmatch(tag)
		if m == nil {
			viol("flag-bit", fmt.Sprintf("parameter %s:flags.%d has tag %q", p.Name, p.FlagBit, tag))
			continue
		}
		bit, _ := strconv.Atoi(m[1])
		if bit != p.FlagBit {
			viol("flag-bit", fmt.Sprintf("parameter %s is flags.%d in the schema, flag:%d in Go", p.Name, p.FlagBit, bit))
		}
		if (m[2] != "") != (p.Type.Name == "true") {
			viol("flag-bit", fmt.Sprintf("parameter %s:%s encoded_in_bitflags=%v", p.Name, p.Type, m[2] != ""))
		}
	}
	fp := d.FlagsPos()
	fg, has := obj.(tl.FlagIndexGetter)
	switch {
	case fp >= 0 && !has:
		viol("flags-position", "schema has flags:# but the type has no FlagIndex()")
	case fp < 0 && has:
		viol("flags-position", "type has FlagIndex() but the schema has no flags word")
	case fp >= 0 && fg.FlagIndex() != fp:
		viol("flags-position", fmt.Sprintf("FlagIndex() = %d, flags:# is parameter %d", fg.FlagIndex(), fp))
	}
}

func c13static(c *wk.Ctx) {
	if err := loadSchemas(); err != nil {
		c.Log.Emit(coreInconclusive(err.Error()))
		return
	}
	idx := 0
	seenIDs := map[uint32]string{}
	// every definition of the API schema
	for _, d := range apiSchema.Defs {
		if c.Mine(idx) {
			c.Begin(idx, d.Line)
			if len(d.Generics) > 0 {
				c13wrapper(c, idx, d)
			} else if gt, ok := bridge.Objects[d.ID]; !ok {
				c.Viol("C13", idx, "unregistered/"+d.Name, fmt.Sprintf("%s#%08x has no registered Go type", d.Name, d.ID), d.Line)
			} else {
				c13compare(c, idx, d, apiSchema, gt, true)
			}
			c.Distinct("api", d.Name)
			if idx%300 == 0 {
				c.Sample(d.Line)
			}
		}
		seenIDs[d.ID] = d.Name
		idx++
	}
	// service schema: wire-used strictly, the rest informational
	for _, d := range mtSchema.Defs {
		if !d.HasID {
			continue
		}
		if c.Mine(idx) {
			c.Begin(idx, d.Line)
			strict := WireUsed[d.Name]
			gt, ok := bridge.Objects[d.ID]
			switch {
			case !ok && strict:
				c.Viol("C13", idx, "unregistered/"+d.Name, fmt.Sprintf("%s#%08x has no registered Go type", d.Name, d.ID), d.Line)
			case !ok:
				c.Count("informational.unregistered", 1)
				c.Note("informational", d.Name+": not registered (only reachable through requests this client never issues)")
			default:
				c13compare(c, idx, d, mtSchema, gt, strict)
			}
			c.Distinct("mtproto", d.Name)
		}
		seenIDs[d.ID] = d.Name
		idx++
	}
	// nothing registered that neither schema defines
	var ids []uint32
	for id := range bridge.Objects {
		ids = append(ids, id)
	}
	sort.Slice(ids, func(i, j int) bool { return ids[i] < ids[j] })
	for _, id := range ids {
		if c.Mine(idx) {
			c.Begin(idx, fmt.Sprintf("registered %#08x", id))
			if _, ok := seenIDs[id]; !ok {
				c.Viol("C13", idx, fmt.Sprintf("extra-registered/%#08x", id), fmt.Sprintf("%v is registered under %#08x, which neither shipped schema defines", bridge.Objects[id], id), id)
			}
			c.Distinct("reg", id)
		}
		idx++
	}
	// hand-written wrappers: found by a source scan so that a new one is reported rather than ignored
	if c.Mine(idx) {
		c.Begin(idx, "wrapper scan")
		src, err := os.ReadFile("/repo/telegram/methods_special.go")
		if err != nil {
			c.Log.Emit(coreInconclusive(err.Error()))
		} else {
			for _, m := range regexp.MustCompile(`(?m)^type (\w+Params) struct`).FindAllStringSubmatch(string(src), -1) {
				known := false
				for _, t := range bridge.Wrappers {
					if t.Elem().Name() == m[1] {
						known = true
					}
				}
				if !known {
					c.Log.Emit(coreInconclusive("methods_special.go declares " + m[1] + ", which the harness does not know; add it to bridge.Wrappers"))
				}
				c.Distinct("wrapper-src", m[1])
			}
		}
	}
	idx++
	c.Count("registered.objects", int64(len(bridge.Objects)))
	c.Count("registered.enums", int64(len(bridge.Enums)))
}

func c13wrapper(c *wk.Ctx, idx int, d *ts.Def) {
	gt, ok := bridge.Wrappers[d.Name]
	if !ok {
		c.Viol("C13", idx, "wrapper-missing/"+d.Name, fmt.Sprintf("the schema defines the generic wrapper %s#%08x; the library has no type for it", d.Name, d.ID), d.Line)
		return
	}
	c13compare(c, idx, d, apiSchema, gt, true)
	_ = strings.TrimSpace
}
