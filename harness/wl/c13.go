package wl

import (
	"fmt"
	"os"
	"reflect"
	"regexp"
	"sort"
	"strings"

	"github.com/xelaj/mtproto/zverif/audit"
	"github.com/xelaj/mtproto/zverif/bridge"
	ts "github.com/xelaj/mtproto/zverif/ref/tlschema"
	"github.com/xelaj/mtproto/zverif/wk"
)

func init() { wk.Register("c13static", c13static) }

// c13compare: one definition against its Go type (shared audit), strict or informational.
func c13compare(c *wk.Ctx, idx int, d *ts.Def, s *ts.Schema, gt reflect.Type, strict bool) {
	if crc := ts.CanonicalCRC(d.Line, s); crc != d.ID {
		c.Viol("C13", idx, "schema-crc/"+d.Name, fmt.Sprintf("%s: written id %#08x, CRC-32 of the canonical line %#08x", d.Name, d.ID, crc), d.Line)
	}
	if HandCodec[d.Name] {
		c.Count("hand_codec."+d.Name, 1)
	}
	audit.Compare(d, s, gt, audit.Registry(bridge.Objects), HandCodec[d.Name], func(kind, detail string) {
		if strict {
			c.Viol("C13", idx, kind+"/"+d.Name, d.Name+": "+detail, d.Line)
		} else {
			c.Count("informational."+kind, 1)
			c.Note("informational", d.Name+": "+kind+": "+detail)
		}
	})
}

func c13static(c *wk.Ctx) {
	if err := loadSchemas(); err != nil {
		c.Log.Emit(coreInconclusive(err.Error()))
		return
	}
	idx := 0
	seenIDs := map[uint32]string{}
	// every definition of the API schema
	for _, d := range apiSchema.Defs {
		if c.Mine(idx) {
			c.Begin(idx, d.Line)
			if len(d.Generics) > 0 {
				c13wrapper(c, idx, d)
			} else if gt, ok := bridge.Objects[d.ID]; !ok {
				c.Viol("C13", idx, "unregistered/"+d.Name, fmt.Sprintf("%s#%08x has no registered Go type", d.Name, d.ID), d.Line)
			} else {
				c13compare(c, idx, d, apiSchema, gt, true)
			}
			c.Distinct("api", d.Name)
			if idx%300 == 0 {
				c.Sample(d.Line)
			}
		}
		seenIDs[d.ID] = d.Name
		idx++
	}
	// service schema: wire-used strictly, the rest informational
	for _, d := range mtSchema.Defs {
		if !d.HasID {
			continue
		}
		if c.Mine(idx) {
			c.Begin(idx, d.Line)
			strict := WireUsed[d.Name]
			gt, ok := bridge.Objects[d.ID]
			switch {
			case !ok && strict:
				c.Viol("C13", idx, "unregistered/"+d.Name, fmt.Sprintf("%s#%08x has no registered Go type", d.Name, d.ID), d.Line)
			case !ok:
				c.Count("informational.unregistered", 1)
				c.Note("informational", d.Name+": not registered (only reachable through requests this client never issues)")
			default:
				c13compare(c, idx, d, mtSchema, gt, strict)
			}
			c.Distinct("mtproto", d.Name)
		}
		seenIDs[d.ID] = d.Name
		idx++
	}
	// nothing registered that neither schema defines
	var ids []uint32
	for id := range bridge.Objects {
		ids = append(ids, id)
	}
	sort.Slice(ids, func(i, j int) bool { return ids[i] < ids[j] })
	for _, id := range ids {
		if c.Mine(idx) {
			c.Begin(idx, fmt.Sprintf("registered %#08x", id))
			if _, ok := seenIDs[id]; !ok {
				c.Viol("C13", idx, fmt.Sprintf("extra-registered/%#08x", id), fmt.Sprintf("%v is registered under %#08x, which neither shipped schema defines", bridge.Objects[id], id), id)
			}
			c.Distinct("reg", id)
		}
		idx++
	}
	// hand-written wrappers: found by a source scan so that a new one is reported rather than ignored
	if c.Mine(idx) {
		c.Begin(idx, "wrapper scan")
		src, err := os.ReadFile("/repo/telegram/methods_special.go")
		if err != nil {
			c.Log.Emit(coreInconclusive(err.Error()))
		} else {
			for _, m := range regexp.MustCompile(`(?m)^type (\w+Params) struct`).FindAllStringSubmatch(string(src), -1) {
				known := false
				for _, t := range bridge.Wrappers {
					if t.Elem().Name() == m[1] {
						known = true
					}
				}
				if !known {
					c.Log.Emit(coreInconclusive("methods_special.go declares " + m[1] + ", which the harness does not know; add it to bridge.Wrappers"))
				}
				c.Distinct("wrapper-src", m[1])
			}
		}
	}
	idx++
	c.Count("registered.objects", int64(len(bridge.Objects)))
	c.Count("registered.enums", int64(len(bridge.Enums)))
}

func c13wrapper(c *wk.Ctx, idx int, d *ts.Def) {
	gt, ok := bridge.Wrappers[d.Name]
	if !ok {
		c.Viol("C13", idx, "wrapper-missing/"+d.Name, fmt.Sprintf("the schema defines the generic wrapper %s#%08x; the library has no type for it", d.Name, d.ID), d.Line)
		return
	}
	c13compare(c, idx, d, apiSchema, gt, true)
	_ = strings.TrimSpace
}
