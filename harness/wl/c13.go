package wl

import (
	"fmt"
	"go/ast"
	"go/parser"
	"go/token"
	"os"
	"reflect"
	"regexp"
	"sort"
	"strconv"
	"strings"

	"github.com/xelaj/mtproto/zverif/audit"
	"github.com/xelaj/mtproto/zverif/bridge"
	ts "github.com/xelaj/mtproto/zverif/ref/tlschema"
	"github.com/xelaj/mtproto/zverif/wk"
)

func init() { wk.Register("c13static", c13static) }

// c13compare: one definition against its Go type (shared audit), strict or informational.
func c13compare(c *wk.Ctx, idx int, d *ts.Def, s *ts.Schema, gt reflect.Type, strict bool) {
	if crc := ts.CanonicalCRC(d.Line, s); crc != d.ID {
		c.Viol("C13", idx, "schema-crc/"+d.Name, fmt.Sprintf("%s: written id %#08x, CRC-32 of the canonical line %#08x", d.Name, d.ID, crc), d.Line)
	}
	if HandCodec[d.Name] {
		c.Count("hand_codec."+d.Name, 1)
	}
	audit.Compare(d, s, gt, audit.Registry(bridge.Objects), HandCodec[d.Name], func(kind, detail string) {
		if kind == "field-name" && s == mtSchema {
			// the hand-written service objects abbreviate (Fingerprints, Retry, Obj, NewSalt): names there are the
			// author's; the generated API layer is the translation whose names the schema dictates
			c.Count("informational.service_field_names_abbreviated", 1)
			return
		}
		if strict {
			c.Viol("C13", idx, kind+"/"+d.Name, d.Name+": "+detail, d.Line)
		} else {
			c.Count("informational."+kind, 1)
			c.Note("informational", d.Name+": "+kind+": "+detail)
		}
	})
}

func c13static(c *wk.Ctx) {
	if err := loadSchemas(); err != nil {
		c.Log.Emit(coreInconclusive(err.Error()))
		return
	}
	idx := 0
	seenIDs := map[uint32]string{}
	// every definition of the API schema
	for _, d := range apiSchema.Defs {
		if c.Mine(idx) {
			c.Begin(idx, d.Line)
			if len(d.Generics) > 0 {
				c13wrapper(c, idx, d)
			} else if gt, ok := bridge.Objects[d.ID]; !ok {
				c.Viol("C13", idx, "unregistered/"+d.Name, fmt.Sprintf("%s#%08x has no registered Go type", d.Name, d.ID), d.Line)
			} else {
				c13compare(c, idx, d, apiSchema, gt, true)
			}
			c.Distinct("api", d.Name)
			if idx%300 == 0 {
				c.Sample(d.Line)
			}
		}
		seenIDs[d.ID] = d.Name
		idx++
	}
	// service schema: wire-used strictly, the rest informational
	for _, d := range mtSchema.Defs {
		if !d.HasID {
			continue
		}
		if c.Mine(idx) {
			c.Begin(idx, d.Line)
			strict := WireUsed[d.Name]
			gt, ok := bridge.Objects[d.ID]
			switch {
			case !ok && strict:
				c.Viol("C13", idx, "unregistered/"+d.Name, fmt.Sprintf("%s#%08x has no registered Go type", d.Name, d.ID), d.Line)
			case !ok:
				c.Count("informational.unregistered", 1)
				c.Note("informational", d.Name+": not registered (only reachable through requests this client never issues)")
			default:
				c13compare(c, idx, d, mtSchema, gt, strict)
			}
			c.Distinct("mtproto", d.Name)
		}
		seenIDs[d.ID] = d.Name
		idx++
	}
	// nothing registered that neither schema defines
	var ids []uint32
	for id := range bridge.Objects {
		ids = append(ids, id)
	}
	sort.Slice(ids, func(i, j int) bool { return ids[i] < ids[j] })
	for _, id := range ids {
		if c.Mine(idx) {
			c.Begin(idx, fmt.Sprintf("registered %#08x", id))
			if _, ok := seenIDs[id]; !ok {
				c.Viol("C13", idx, fmt.Sprintf("extra-registered/%#08x", id), fmt.Sprintf("%v is registered under %#08x, which neither shipped schema defines", bridge.Objects[id], id), id)
			}
			c.Distinct("reg", id)
		}
		idx++
	}
	// names: the identifier a constructor is known by in Go is the schema's name for it (type names by reflection,
	// enum constants by reading the source: the value of a constant named after fileMov must be fileMov's id)
	if c.Mine(idx) {
		c.Begin(idx, "names")
		c13names(c, idx)
	}
	idx++
	// interface membership in both directions: the Go types that satisfy the interface of a schema type are exactly
	// the constructors of that type
	if c.Mine(idx) {
		c.Begin(idx, "interface membership")
		c13membership(c, idx)
	}
	idx++
	// hand-written wrappers: found by a source scan so that a new one is reported rather than ignored
	if c.Mine(idx) {
		c.Begin(idx, "wrapper scan")
		src, err := os.ReadFile("/repo/telegram/methods_special.go")
		if err != nil {
			c.Log.Emit(coreInconclusive(err.Error()))
		} else {
			for _, m := range regexp.MustCompile(`(?m)^type (\w+Params) struct`).FindAllStringSubmatch(string(src), -1) {
				known := false
				for _, t := range bridge.Wrappers {
					if t.Elem().Name() == m[1] {
						known = true
					}
				}
				if !known {
					c.Log.Emit(coreInconclusive("methods_special.go declares " + m[1] + ", which the harness does not know; add it to bridge.Wrappers"))
				}
				c.Distinct("wrapper-src", m[1])
			}
		}
	}
	idx++
	c.Count("registered.objects", int64(len(bridge.Objects)))
	c.Count("registered.enums", int64(len(bridge.Enums)))
}

func c13wrapper(c *wk.Ctx, idx int, d *ts.Def) {
	gt, ok := bridge.Wrappers[d.Name]
	if !ok {
		c.Viol("C13", idx, "wrapper-missing/"+d.Name, fmt.Sprintf("the schema defines the generic wrapper %s#%08x; the library has no type for it", d.Name, d.ID), d.Line)
		return
	}
	c13compare(c, idx, d, apiSchema, gt, true)
	_ = strings.TrimSpace
}

func c13norm(name string) string {
	return strings.ToLower(strings.NewReplacer(".", "", "_", "").Replace(name))
}

func c13names(c *wk.Ctx, idx int) {
	byID := map[uint32]*ts.Def{}
	for _, d := range apiSchema.Defs {
		byID[d.ID] = d
	}
	// struct types
	for id, gt := range bridge.Objects {
		d := byID[id]
		if d == nil || gt.Kind() != reflect.Ptr {
			continue
		}
		got, want := c13norm(gt.Elem().Name()), c13norm(d.Name)
		ok := got == want || got == want+"obj"
		if d.IsFunc {
			ok = got == want+"params"
		}
		c.Count("names.types_checked", 1)
		if !ok {
			c.Viol("C13", idx, "name/"+d.Name, fmt.Sprintf("%s#%08x is represented by the Go type %s: the name belongs to another definition", d.Name, id, gt.Elem().Name()), d.Line)
		}
	}
	// enum constants, from the source
	for _, file := range []string{"/repo/telegram/enums_gen.go"} {
		fs := token.NewFileSet()
		f, err := parser.ParseFile(fs, file, nil, 0)
		if err != nil {
			c.Log.Emit(coreInconclusive("c13 names: " + err.Error()))
			return
		}
		for _, decl := range f.Decls {
			gd, ok := decl.(*ast.GenDecl)
			if !ok || gd.Tok != token.CONST {
				continue
			}
			for _, sp := range gd.Specs {
				vs, ok := sp.(*ast.ValueSpec)
				if !ok || len(vs.Names) != 1 || len(vs.Values) != 1 {
					continue
				}
				lit, ok := vs.Values[0].(*ast.BasicLit)
				if !ok || lit.Kind != token.INT {
					continue
				}
				v, err := strconv.ParseUint(lit.Value, 0, 32)
				if err != nil {
					continue
				}
				d := byID[uint32(v)]
				c.Count("names.enum_constants_checked", 1)
				if d == nil {
					c.Viol("C13", idx, "name/enum-constant/"+vs.Names[0].Name, fmt.Sprintf("constant %s = %#08x: the schema has no constructor with that id", vs.Names[0].Name, v), nil)
					continue
				}
				got, want := c13norm(vs.Names[0].Name), c13norm(d.Name)
				if got != want && got != want+"obj" {
					c.Viol("C13", idx, "name/enum-constant/"+d.Name, fmt.Sprintf("constant %s carries %#08x, which is the id of %s", vs.Names[0].Name, v, d.Name), d.Line)
				}
			}
		}
	}
	c.Distinct("names", 1)
}

func c13membership(c *wk.Ctx, idx int) {
	u := universe()
	byID := map[uint32]*ts.Def{}
	for _, d := range apiSchema.Defs {
		byID[d.ID] = d
	}
	for _, d := range mtSchema.Defs {
		if d.HasID && byID[d.ID] == nil {
			byID[d.ID] = d
		}
	}
	idsOf := map[reflect.Type][]uint32{}
	for id, gt := range bridge.Objects {
		idsOf[gt] = append(idsOf[gt], id)
	}
	for _, it := range u.Ifaces() {
		// the schema type this interface stands for: the result type most of its implementers name
		votes := map[string]int{}
		impl := map[string][]string{}
		for gt, ids := range idsOf {
			if !gt.Implements(it) {
				continue
			}
			for _, id := range ids {
				if d := byID[id]; d != nil && !d.IsFunc {
					votes[d.Result.Name]++
					impl[d.Result.Name] = append(impl[d.Result.Name], d.Name)
				}
			}
		}
		if len(votes) == 0 {
			continue
		}
		best := ""
		for t, n := range votes {
			if n > votes[best] || (n == votes[best] && t < best) {
				best = t
			}
		}
		c.Count("membership.interfaces_checked", 1)
		for t, names := range impl {
			if t != best {
				sort.Strings(names)
				c.Viol("C13", idx, "membership/foreign-implementer/"+it.Name(), fmt.Sprintf("Go interface %s stands for the schema type %s, but is also satisfied by %v, constructors of %s", it.Name(), best, names, t), it.Name())
			}
		}
		for _, d := range apiSchema.ByResult[best] {
			gt, ok := bridge.Objects[d.ID]
			if ok && !d.IsFunc && !gt.Implements(it) {
				c.Viol("C13", idx, "membership/missing-implementer/"+d.Name, fmt.Sprintf("%s is a constructor of %s but its Go type %v does not satisfy %s", d.Name, best, gt, it.Name()), d.Line)
			}
		}
	}
	c.Distinct("membership", 1)
}
