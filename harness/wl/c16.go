package wl

import (
	"fmt"
	"math/rand"
	"strings"
	"sync"
	"sync/atomic"
	"time"

	"github.com/xelaj/mtproto/telegram"
	"github.com/xelaj/mtproto/zverif/ref/mtp"
	"github.com/xelaj/mtproto/zverif/refserver"
	"github.com/xelaj/mtproto/zverif/wk"
)

func init() { wk.Register("c16", c16) }

type c16item struct {
	Name              string
	Content           bool // sent with an odd seq_no
	WellFormedService bool
	build             func(r *rand.Rand, e *rpcEnv, answered pendingReq) []byte
	raw               func(cn *refserver.Conn) // non-envelope actions (close, transport code)
}

func le64i(v int64) []byte { return le64(uint64(v)) }

func vecLong(ids ...int64) []byte {
	b := append(le32(0x1cb5c415), le32(uint32(len(ids)))...)
	for _, id := range ids {
		b = append(b, le64i(id)...)
	}
	return b
}

func c16catalogue() []c16item {
	var items []c16item
	add := func(name string, content, wf bool, f func(r *rand.Rand, e *rpcEnv, a pendingReq) []byte) {
		items = append(items, c16item{Name: name, Content: content, WellFormedService: wf, build: f})
	}
	add("pong", false, true, func(r *rand.Rand, e *rpcEnv, a pendingReq) []byte {
		return refserver.Pong(int64(r.Uint64()), int64(r.Uint64()))
	})
	add("pong-content", true, true, func(r *rand.Rand, e *rpcEnv, a pendingReq) []byte { return refserver.Pong(a.msgID, 7) })
	add("msgs_ack", false, true, func(r *rand.Rand, e *rpcEnv, a pendingReq) []byte {
		return refserver.MsgsAck([]int64{a.msgID, int64(r.Uint64())})
	})
	add("msgs_ack-empty", false, true, func(r *rand.Rand, e *rpcEnv, a pendingReq) []byte { return refserver.MsgsAck(nil) })
	add("new_session_created", true, true, func(r *rand.Rand, e *rpcEnv, a pendingReq) []byte {
		return refserver.NewSessionCreated(a.msgID, int64(r.Uint64()), e.salt())
	})
	for _, code := range []int32{16, 17, 18, 19, 20, 32, 33, 34, 35, 48, 64, 0, 99, -1, -16, -2147483648, 2147483647, 65, 255, 256, 65536} {
		code := code
		add(fmt.Sprintf("bad_msg_notification-%d", code), false, true, func(r *rand.Rand, e *rpcEnv, a pendingReq) []byte {
			id := a.msgID // an id of a request that was already answered
			if r.Intn(2) == 0 {
				id = int64(r.Uint64()) &^ 3
			}
			return append(append(append(le32(0xa7eff811), le64i(id)...), le32(uint32(r.Intn(100)))...), le32(uint32(code))...)
		})
	}
	add("bad_server_salt-unknown-id", false, true, func(r *rand.Rand, e *rpcEnv, a pendingReq) []byte {
		return refserver.BadServerSalt(int64(r.Uint64())&^3, 1, e.salt())
	})
	add("msgs_state_info", false, true, func(r *rand.Rand, e *rpcEnv, a pendingReq) []byte {
		return append(append(le32(0x04deb57d), le64i(a.msgID)...), mtp.TLBytes([]byte{4, 4})...)
	})
	add("msgs_all_info", false, true, func(r *rand.Rand, e *rpcEnv, a pendingReq) []byte {
		return append(append(le32(0x8cc0d131), vecLong(a.msgID)...), mtp.TLBytes([]byte{4})...)
	})
	add("msg_detailed_info", false, true, func(r *rand.Rand, e *rpcEnv, a pendingReq) []byte {
		return append(append(append(append(le32(0x276d3ec6), le64i(a.msgID)...), le64i(int64(r.Uint64())|1)...), le32(10)...), le32(0)...)
	})
	add("msg_new_detailed_info", false, true, func(r *rand.Rand, e *rpcEnv, a pendingReq) []byte {
		return append(append(append(le32(0x809db6df), le64i(int64(r.Uint64())|1)...), le32(10)...), le32(0)...)
	})
	add("msg_resend_req", false, true, func(r *rand.Rand, e *rpcEnv, a pendingReq) []byte {
		return append(le32(0x7d861a08), vecLong(a.msgID)...)
	})
	add("msgs_state_req", true, true, func(r *rand.Rand, e *rpcEnv, a pendingReq) []byte {
		return append(le32(0xda69fb52), vecLong(a.msgID)...)
	})
	add("future_salts", false, true, func(r *rand.Rand, e *rpcEnv, a pendingReq) []byte {
		b := append(append(le32(0xae500895), le64i(a.msgID)...), le32(1600000000)...)
		b = append(b, le32(1)...) // bare vector<future_salt>
		b = append(b, le32(1)...)
		b = append(b, le32(2)...)
		return append(b, le64i(99)...)
	})
	add("rpc_answer_unknown", false, true, func(r *rand.Rand, e *rpcEnv, a pendingReq) []byte { return le32(0x5e2ad36e) })
	add("rpc_answer_dropped_running", false, true, func(r *rand.Rand, e *rpcEnv, a pendingReq) []byte { return le32(0xcd78e586) })
	add("rpc_answer_dropped", false, true, func(r *rand.Rand, e *rpcEnv, a pendingReq) []byte {
		return append(append(append(le32(0xa43ad8b7), le64i(a.msgID)...), le32(1)...), le32(2)...)
	})
	add("unsolicited-resPQ", false, false, func(r *rand.Rand, e *rpcEnv, a pendingReq) []byte {
		b := append(append(le32(0x05162463), rbytes(r, 16)...), rbytes(r, 16)...)
		b = append(b, mtp.TLBytes([]byte{1, 2, 3, 4, 5, 6, 7, 8})...)
		return append(b, vecLong(1)...)
	})
	add("unsolicited-dh_gen_ok", false, false, func(r *rand.Rand, e *rpcEnv, a pendingReq) []byte {
		return append(append(append(le32(0x3bcbf734), rbytes(r, 16)...), rbytes(r, 16)...), rbytes(r, 16)...)
	})
	add("update-updateShort", true, true, func(r *rand.Rand, e *rpcEnv, a pendingReq) []byte { return apiUpdateBody(r) })
	add("update-object-inputPeerSelf", true, false, func(r *rand.Rand, e *rpcEnv, a pendingReq) []byte { return le32(0x7da07ec9) })
	add("update-enum-value", true, false, func(r *rand.Rand, e *rpcEnv, a pendingReq) []byte { return le32(0xaa963b05) }) // storage.fileUnknown
	add("bare-Bool", true, false, func(r *rand.Rand, e *rpcEnv, a pendingReq) []byte { return le32(0x997275b5) })
	add("bare-vector", true, false, func(r *rand.Rand, e *rpcEnv, a pendingReq) []byte { return append(le32(0x1cb5c415), le32(0)...) })
	add("bare-null", true, false, func(r *rand.Rand, e *rpcEnv, a pendingReq) []byte { return le32(0x56730bcc) })
	add("rpc_result-unknown-id", true, false, func(r *rand.Rand, e *rpcEnv, a pendingReq) []byte {
		return refserver.RPCResult(int64(r.Uint64())&^3, le32(0x997275b5))
	})
	add("rpc_result-repeated", true, false, func(r *rand.Rand, e *rpcEnv, a pendingReq) []byte { return refserver.RPCResult(a.msgID, a.res) })
	add("rpc_result-repeated-gzip", true, false, func(r *rand.Rand, e *rpcEnv, a pendingReq) []byte {
		return refserver.Gzip(refserver.RPCResult(a.msgID, a.res))
	})
	add("rpc_result-vector-unknown-id", true, false, func(r *rand.Rand, e *rpcEnv, a pendingReq) []byte {
		return refserver.RPCResult(int64(r.Uint64())&^3, append(le32(0x1cb5c415), le32(0)...))
	})
	add("bare-rpc_error", true, false, func(r *rand.Rand, e *rpcEnv, a pendingReq) []byte { return refserver.RPCError(420, "FLOOD_WAIT_3") })
	add("rpc_result-error-unknown-id", true, false, func(r *rand.Rand, e *rpcEnv, a pendingReq) []byte {
		return refserver.RPCResult(int64(r.Uint64())&^3, refserver.RPCError(500, "INTERNAL"))
	})
	add("unregistered-id", true, false, func(r *rand.Rand, e *rpcEnv, a pendingReq) []byte { return append(le32(0xdeadbeef), rbytes(r, 12)...) })
	add("unregistered-id-in-rpc_result", true, false, func(r *rand.Rand, e *rpcEnv, a pendingReq) []byte {
		return refserver.RPCResult(int64(r.Uint64())&^3, le32(0xdeadbeef))
	})
	add("truncated-body", true, false, func(r *rand.Rand, e *rpcEnv, a pendingReq) []byte { return refserver.NewSessionCreated(1, 2, 3)[:12] })
	add("truncated-rpc_result", true, false, func(r *rand.Rand, e *rpcEnv, a pendingReq) []byte { return refserver.RPCResult(a.msgID, a.res)[:8] })
	add("empty-body", false, false, func(r *rand.Rand, e *rpcEnv, a pendingReq) []byte { return []byte{} })
	add("three-bytes", false, false, func(r *rand.Rand, e *rpcEnv, a pendingReq) []byte { return le32(0x347773c5)[:0] })
	// big frames (over 1 MiB, 4 MiB): acknowledgements for 131100 / 600000 ids, a container of 40000 pongs
	add("msgs_ack-131100-ids", false, true, func(r *rand.Rand, e *rpcEnv, a pendingReq) []byte {
		ids := make([]int64, 131100)
		for i := range ids {
			ids[i] = int64(i) << 2
		}
		return refserver.MsgsAck(ids)
	})
	add("msgs_ack-600000-ids", false, true, func(r *rand.Rand, e *rpcEnv, a pendingReq) []byte {
		ids := make([]int64, 600000)
		for i := range ids {
			ids[i] = int64(i) << 2
		}
		return refserver.MsgsAck(ids)
	})
	add("container-of-40000-pongs", false, true, func(r *rand.Rand, e *rpcEnv, a pendingReq) []byte {
		items := make([]refserver.Out, 40000)
		for i := range items {
			items[i] = refserver.Out{MsgID: e.srv.NextMsgID(3), SeqNo: 0, Body: refserver.Pong(int64(i), 2)}
		}
		return refserver.Container(items)
	})
	add("empty-container", false, false, func(r *rand.Rand, e *rpcEnv, a pendingReq) []byte { return refserver.Container(nil) })
	add("container-negative-count", false, false, func(r *rand.Rand, e *rpcEnv, a pendingReq) []byte {
		return append(le32(0x73f1f8dc), le32(0xffffffff)...)
	})
	add("container-of-service", false, true, func(r *rand.Rand, e *rpcEnv, a pendingReq) []byte {
		return refserver.Container([]refserver.Out{{MsgID: e.srv.NextMsgID(3), SeqNo: 0, Body: refserver.Pong(1, 2)}, {MsgID: e.srv.NextMsgID(3), SeqNo: 0, Body: refserver.MsgsAck([]int64{a.msgID})}})
	})
	add("nested-container", false, false, func(r *rand.Rand, e *rpcEnv, a pendingReq) []byte {
		inner := refserver.Container([]refserver.Out{{MsgID: e.srv.NextMsgID(3), SeqNo: 0, Body: refserver.Pong(1, 2)}})
		return refserver.Container([]refserver.Out{{MsgID: e.srv.NextMsgID(3), SeqNo: 0, Body: inner}})
	})
	add("nested-container-depth-50", false, false, func(r *rand.Rand, e *rpcEnv, a pendingReq) []byte {
		b := refserver.Pong(1, 2)
		for i := 0; i < 50; i++ {
			b = refserver.Container([]refserver.Out{{MsgID: e.srv.NextMsgID(3), SeqNo: 0, Body: b}})
		}
		return b
	})
	add("container-notification-then-update", false, true, func(r *rand.Rand, e *rpcEnv, a pendingReq) []byte {
		bad := append(append(append(le32(0xa7eff811), le64i(int64(r.Uint64())&^3)...), le32(3)...), le32(33)...)
		return refserver.Container([]refserver.Out{{MsgID: e.srv.NextMsgID(3), SeqNo: 0, Body: bad}, {MsgID: e.srv.NextMsgID(3), SeqNo: 1, Body: apiUpdateBody(r)},
			{MsgID: e.srv.NextMsgID(3), SeqNo: 2, Body: refserver.NewSessionCreated(1, 2, e.salt())}})
	})
	add("container-garbage-then-result-repeat", false, false, func(r *rand.Rand, e *rpcEnv, a pendingReq) []byte {
		return refserver.Container([]refserver.Out{{MsgID: e.srv.NextMsgID(3), SeqNo: 1, Body: le32(0xdeadbeef)}, {MsgID: e.srv.NextMsgID(1), SeqNo: 3, Body: refserver.RPCResult(a.msgID, a.res)}})
	})
	add("container-item-garbage", false, false, func(r *rand.Rand, e *rpcEnv, a pendingReq) []byte {
		return refserver.Container([]refserver.Out{{MsgID: e.srv.NextMsgID(3), SeqNo: 1, Body: rbytes(r, 16)}})
	})
	add("gzip-of-pong", false, true, func(r *rand.Rand, e *rpcEnv, a pendingReq) []byte { return refserver.Gzip(refserver.Pong(1, 2)) })
	add("gzip-of-garbage", true, false, func(r *rand.Rand, e *rpcEnv, a pendingReq) []byte { return refserver.Gzip(rbytes(r, 20)) })
	add("gzip-bad-stream", true, false, func(r *rand.Rand, e *rpcEnv, a pendingReq) []byte {
		return append(le32(0x3072cfa1), mtp.TLBytes(rbytes(r, 24))...)
	})
	add("gzip-of-gzip-of-update", true, true, func(r *rand.Rand, e *rpcEnv, a pendingReq) []byte {
		return refserver.Gzip(refserver.Gzip(apiUpdateBody(r)))
	})
	// malformed envelopes (sealed under the right key): declared lengths at the integer boundaries, tiny frames
	for _, dl := range []int32{1<<31 - 1, 1<<31 - 16, -1 << 31, -1} {
		dl := dl
		items = append(items, c16item{Name: fmt.Sprintf("envelope-declared-len-%d", dl), raw: func(cn *refserver.Conn) {
			key, sess := cn.KeySession()
			if key != nil {
				in := mtp.Inner{Salt: 1, Session: sess, MsgID: cn.S.NextMsgID(1), SeqNo: 1, Body: make([]byte, 24)}
				cn.SendRaw(mtp.SealDeclared(key, in, 8, make([]byte, 8), dl, nil))
			}
		}})
	}
	// authentic envelopes with unexpected header fields: another session id, another salt, msg_id extremes
	for _, how := range []string{"other-session", "other-salt", "msg_id-top-bit", "msg_id-small", "seq_no-negative"} {
		how := how
		items = append(items, c16item{Name: "envelope-" + how, raw: func(cn *refserver.Conn) {
			key, sess := cn.KeySession()
			if key == nil {
				return
			}
			salt, _ := cn.S.Salt(key)
			in := mtp.Inner{Salt: salt, Session: sess, MsgID: cn.S.NextMsgID(1), SeqNo: 1, Body: refserver.Pong(1, 2)}
			switch how {
			case "other-session":
				in.Session ^= 0x5a5a5a5a5a5a5a5a
			case "other-salt":
				in.Salt ^= 0x0101010101010101
			case "msg_id-top-bit":
				in.MsgID |= -1 << 63
			case "msg_id-small":
				in.MsgID = 5
			case "seq_no-negative":
				in.SeqNo = -1
			}
			cn.SendRaw(mtp.Seal(key, in, 8, make([]byte, (16-(32+len(in.Body))%16)%16)))
		}})
	}
	for _, n := range []int{0, 1, 3, 5, 7, 8, 23} {
		n := n
		items = append(items, c16item{Name: fmt.Sprintf("frame-of-%d-bytes", n), raw: func(cn *refserver.Conn) {
			b := make([]byte, n)
			for i := range b {
				b[i] = byte(0x11 * (i + 1))
			}
			cn.SendRaw(b)
		}})
	}
	// frames that look encrypted (non-zero key id) but are not sealed under the session's key
	for _, k := range c16foreignFrames {
		k := k
		items = append(items, c16item{Name: "frame-" + k, raw: func(cn *refserver.Conn) { cn.SendRaw(c16foreignFrame(k, rand.New(rand.NewSource(int64(len(k)))))) }})
	}
	items = append(items, c16item{Name: "transport-code--404", raw: func(cn *refserver.Conn) { cn.SendRaw(le32(0xfffffe6c)) }})
	items = append(items, c16item{Name: "transport-code--429", raw: func(cn *refserver.Conn) { cn.SendRaw(le32(0xfffffe53)) }})
	items = append(items, c16item{Name: "close-with-request-in-flight", raw: func(cn *refserver.Conn) { cn.Close() }})
	items = append(items, c16item{Name: "close-then-drop-next-connection", raw: func(cn *refserver.Conn) { cn.Close() }})
	items = append(items, c16item{Name: "close", raw: func(cn *refserver.Conn) { cn.Close() }})
	return items
}

var c16foreignFrames = []string{"key-id-of-the-empty-key", "random-key-id-aligned", "random-key-id-unaligned", "random-key-id-24-bytes", "key-id-of-the-empty-key-24-bytes"}

// c16foreignFrame: a transport payload whose first 8 bytes are a non-zero key id the client does not hold.
func c16foreignFrame(kind string, r *rand.Rand) []byte {
	id := rbytes(r, 8)
	id[0] |= 1
	if strings.HasPrefix(kind, "key-id-of-the-empty-key") {
		id = mtp.AuthKeyID(nil) // what a client that has no key yet computes as "its" key id
	}
	switch {
	case strings.HasSuffix(kind, "24-bytes"):
		return append(id, rbytes(r, 16)...)
	case strings.HasSuffix(kind, "unaligned"):
		return append(id, rbytes(r, 16+16*(1+r.Intn(4))+4*(1+r.Intn(3)))...)
	}
	return append(id, rbytes(r, 16+16*(1+r.Intn(6)))...)
}

// c16prekey: the key exchange itself is traffic too. Before the reply of one of its three stages the server writes
// a frame that looks encrypted; the client has no key (or not yet the new one), must refuse the frame, and the
// exchange, being otherwise conformant, completes; a request issued afterwards is answered.
func c16prekey(c *wk.Ctx, idx int, r *rand.Rand, stage, kind string) {
	w := newWorld(c, idx)
	defer w.close()
	var srv *refserver.Server
	srv = w.server(refserver.HandlerFunc(func(cn *refserver.Conn, in *mtp.Inner) {
		if uid, _, res, ok := answerFor(in.Body); ok {
			key, _ := cn.KeySession()
			salt, _ := srv.Salt(key)
			cn.SendEncrypted(refserver.Out{MsgID: srv.NextMsgID(1), SeqNo: cn.NextSeq(true), Body: refserver.RPCResult(in.MsgID, res)}, salt, "rpc_result", map[string]interface{}{"uid": fmt.Sprint(uid)})
		}
	}))
	var injected int32
	srv.Tamper = func(f *refserver.HSFields) {
		if f.Stage == stage {
			f.RawBefore = [][]byte{c16foreignFrame(kind, r)}
			atomic.AddInt32(&injected, 1)
		}
	}
	m, err := w.client(srv.Addr, w.sessionPath("s"), srv)
	if err != nil {
		c.Viol("C16", idx, "prekey/new-client", err.Error(), nil)
		return
	}
	tag := stage + "/" + kind
	var cerr error
	var pan bool
	var pm, st string
	if !withTimeout(60*time.Second, func() { pan, pm, st = wk.Guard(func() { cerr = m.CreateConnection() }) }) {
		if stalled, dump := isStalled(); stalled {
			c.Viol("C16", idx, "prekey/stall/"+tag, "a frame under a foreign key id before the "+stage+" reply: the key exchange never finished and nothing can move", dump)
		} else {
			c.Log.Emit(coreInconclusive("c16 prekey: CreateConnection did not return within the watchdog"))
		}
		return
	}
	defer safeDisconnect(m)
	if pan {
		c.Viol("C16", idx, "prekey/panic/"+tag+"/"+st, pm, nil)
		return
	}
	if cerr != nil {
		c.Viol("C16", idx, "prekey/exchange-failed/"+tag, "a refused frame before the "+stage+" reply made the otherwise conformant key exchange fail: "+wk.Short(cerr.Error(), 300), nil)
		return
	}
	if atomic.LoadInt32(&injected) == 0 {
		c.Log.Emit(coreInconclusive("c16 prekey: stage " + stage + " never reached"))
		return
	}
	uid := uint64(r.Uint32()) | uint64(r.Uint32())<<32
	var res interface{}
	var rerr error
	done := withTimeout(30*time.Second, func() {
		pan, pm, st = wk.Guard(func() {
			res, rerr = m.MakeRequest(&telegram.MessagesGetDhConfigParams{Version: int32(uint32(uid)), RandomLength: int32(uint32(uid >> 32))})
		})
	})
	nm, _ := res.(*telegram.MessagesDhConfigNotModified)
	switch {
	case !done:
		if stalled, dump := isStalled(); stalled {
			c.Viol("C16", idx, "prekey/probe-stall/"+tag, "the request after the key exchange never completed", dump)
		} else {
			c.Log.Emit(coreInconclusive("c16 prekey: probe did not return within the watchdog"))
		}
	case pan:
		c.Viol("C16", idx, "prekey/probe-panic/"+tag+"/"+st, pm, nil)
	case rerr != nil || nm == nil || len(nm.Random) != 8 || leU64(nm.Random) != stamp(uid):
		c.Viol("C16", idx, "prekey/probe-wrong/"+tag, fmt.Sprintf("err=%v result=%T", rerr, res), nil)
	}
	c.Count("prekey.exchanges", 1)
	c.Distinct("prekey", stage, kind)
}

func c16(c *wk.Ctx) {
	cat := c16catalogue()
	idx := 0
	// frames under foreign key ids while the key exchange is in progress
	for _, stage := range []string{"resPQ", "dh_params", "dh_gen"} {
		for _, kind := range c16foreignFrames {
			if c.Mine(idx) {
				c.Begin(idx, "prekey "+stage+" "+kind)
				c16prekey(c, idx, c.Rand(idx), stage, kind)
			}
			idx++
		}
	}
	// every catalogue item singly (with and without a warning channel / custom handler)
	for i := range cat {
		for v := 0; v < c.Pick(1, 4); v++ {
			if c.Mine(idx) {
				c.Begin(idx, "single "+cat[i].Name)
				c16case(c, idx, c.Rand(idx), []c16item{cat[i]}, i+v)
			}
			idx++
		}
	}
	// a long-lived idle connection (thorough only): after a minute the client pings, the server answers pong and then
	// stays silent past the client's 65 s read deadline; requests issued afterwards must still complete
	if !c.Quick() {
		for k := 0; k < 2; k++ {
			if c.Mine(idx) {
				c.Begin(idx, fmt.Sprintf("idle %d", k))
				c16idle(c, idx, c.Rand(idx), k)
			}
			idx++
		}
	}
	// every item twice in a row (state left behind by the first occurrence meets the second)
	for i := range cat {
		if c.Mine(idx) {
			c.Begin(idx, "double "+cat[i].Name)
			c16case(c, idx, c.Rand(idx), []c16item{cat[i], cat[i]}, i)
		}
		idx++
	}
	// every envelope item while a request is pending, naming that request where the item names one
	for i := range cat {
		if cat[i].raw == nil {
			if c.Mine(idx) {
				c.Begin(idx, "pending "+cat[i].Name)
				c16case(c, idx, c.Rand(idx), []c16item{cat[i]}, 3*i+2)
			}
			idx++
		}
	}
	// a server that keeps closing: eight orderly closes in a row, each after the client has reconnected
	for k := 0; k < c.Pick(1, 4); k++ {
		if c.Mine(idx) {
			var seq []c16item
			for j := 0; j < 8+k; j++ {
				seq = append(seq, cat[len(cat)-1])
			}
			c.Begin(idx, fmt.Sprintf("close x%d", len(seq)))
			c16case(c, idx, c.Rand(idx), seq, k)
		}
		idx++
	}
	// random sequences of 1-8 items
	for k := 0; k < c.Pick(100, 2000); k++ {
		if c.Mine(idx) {
			r := c.Rand(idx)
			var seq []c16item
			names := ""
			for j := 1 + r.Intn(8); j > 0; j-- {
				it := cat[r.Intn(len(cat))]
				if r.Intn(6) == 0 {
					it = cat[len(cat)-1] // close
				}
				seq = append(seq, it)
				names += it.Name + " "
			}
			c.Begin(idx, "seq "+names)
			c16case(c, idx, r, seq, k)
		}
		idx++
	}
	theHooks.flushCounts(c)
}

func c16case(c *wk.Ctx, idx int, r *rand.Rand, seq []c16item, variant int) {
	var holdNext int32
	var heldMu sync.Mutex
	var held pendingReq
	e, err := newRPCEnv(c, idx, r, envOpts{NoWarnings: variant%5 == 4, Handler: func(e *rpcEnv, p pendingReq, in *mtp.Inner) bool {
		if atomic.CompareAndSwapInt32(&holdNext, 1, 0) {
			heldMu.Lock()
			held = p
			heldMu.Unlock()
			return true // swallowed: this request is in flight when the connection goes away / while the items arrive
		}
		e.sendGroup(p.conn, [][]byte{e.resultBody(p, wrapOpts{})}, []uint64{p.uid}, false)
		e.mu.Lock()
		e.pending = append(e.pending[:0], p) // remember the last answered request
		e.mu.Unlock()
		return true
	}})
	if err != nil {
		c.Viol("C16", idx, "setup", err.Error(), nil)
		return
	}
	defer e.close()
	var handled int32
	switch variant % 4 {
	case 1:
		e.m.AddCustomServerRequestHandler(func(i interface{}) bool { atomic.AddInt32(&handled, 1); return true })
	case 2: // a handler that declines everything
		e.m.AddCustomServerRequestHandler(func(i interface{}) bool { atomic.AddInt32(&handled, 1); return false })
	case 3: // one that declines, then one that accepts
		e.m.AddCustomServerRequestHandler(func(i interface{}) bool { return false })
		e.m.AddCustomServerRequestHandler(func(i interface{}) bool { atomic.AddInt32(&handled, 1); return true })
	}
	var reconnects int32
	var rmu sync.Mutex
	hookDelays := map[string]int{"recv.dispatch": 200, "ack.before": 200}
	if variant%6 == 5 {
		// an application that is slow to pick up its answers: every caller is held a quarter of a second between its
		// write and its wait — "requests issued afterwards still complete" does not depend on the caller's speed
		hookDelays["call.sent"] = hookAlways + 250000
		c.Count("variant.slow_callers", 1)
	}
	theHooks.start(rand.New(rand.NewSource(r.Int63())), hookDelays, func(name string, arg int64) {
		if name == "reconnect.done" {
			rmu.Lock()
			reconnects++
			rmu.Unlock()
		}
	})
	defer theHooks.stop()
	used := map[uint64]bool{}
	names := ""
	for _, it := range seq {
		names += it.Name + " "
	}
	probe := func(stage string) bool {
		uid := uidFor(r, "object", used)
		kind := rpcKinds[r.Intn(len(rpcKinds))]
		uid = uidFor(r, kind, used)
		var rec callRec
		if !withTimeout(25*time.Second, func() { rec = e.doCall(0, uid, kind, false) }) {
			if st, dump := isStalled(); st {
				c.Viol("C16", idx, "probe-stall/"+stage, fmt.Sprintf("after [%s] a request never completes and nothing can move", names), dump)
			} else {
				c.Log.Emit(coreInconclusive("c16: probe did not return within the watchdog after " + names))
			}
			return false
		}
		if rec.Panic != "" || rec.Err != "" || !rec.OK {
			c.Viol("C16", idx, "probe-failed/"+stage, fmt.Sprintf("after [%s]: probe %s panic=%q err=%q got=%q", names, kind, rec.Panic, rec.Err, rec.Got), names)
			return false
		}
		return true
	}
	if !probe("before") {
		return
	}
	// one variant in three: a request is PENDING (the server has it and withholds the answer) while the items arrive,
	// and the items that name a request name that one — service traffic about a message the client still waits for
	// takes other branches than traffic about answered or unknown ids. What becomes of the pending call is not
	// judged; the probe after the sequence is
	pendingMode := variant%3 == 2
	for _, it := range seq {
		if it.raw != nil {
			pendingMode = false
		}
	}
	if pendingMode {
		atomic.StoreInt32(&holdNext, 1)
		uid := uidFor(r, "object", used)
		go func() { wk.Guard(func() { e.doCall(8, uid, "object", false) }) }()
		for w := 0; w < 500 && atomic.LoadInt32(&holdNext) == 1; w++ {
			time.Sleep(10 * time.Millisecond)
		}
		if atomic.LoadInt32(&holdNext) == 1 {
			pendingMode = false
			atomic.StoreInt32(&holdNext, 0)
		} else {
			c.Count("variant.items_name_a_pending_request", 1)
		}
	}
	for si, it := range seq {
		conns := e.srv.Conns()
		cn := conns[len(conns)-1]
		e.mu.Lock()
		var last pendingReq
		if len(e.pending) > 0 {
			last = e.pending[0]
		}
		e.mu.Unlock()
		c.Count("item."+it.Name, 1)
		if it.raw != nil {
			before := func() int32 { rmu.Lock(); defer rmu.Unlock(); return reconnects }()
			plainBefore := c16plainFrames(e)
			switch it.Name {
			case "close-with-request-in-flight":
				// a request the server never answers is waiting when the connection goes away; what becomes of THAT
				// call is not part of the statement (it is left behind), what is: requests issued afterwards complete
				atomic.StoreInt32(&holdNext, 1)
				uid := uidFor(r, "object", used)
				go func() { wk.Guard(func() { e.doCall(9, uid, "object", false) }) }()
				for w := 0; w < 500 && atomic.LoadInt32(&holdNext) == 1; w++ {
					time.Sleep(10 * time.Millisecond)
				}
			case "close-then-drop-next-connection":
				atomic.StoreInt32(&e.srv.DropAccepted, 1)
			}
			it.raw(cn)
			if strings.HasPrefix(it.Name, "close") {
				if it.Name == "close-then-drop-next-connection" {
					before++ // two reconnects are needed
				}
				// "later requests" means later than the reconnect: wait for the reconnect.done hook (bounded)
				ok := false
				for w := 0; w < 400; w++ {
					rmu.Lock()
					now := reconnects
					rmu.Unlock()
					if now > before {
						ok = true
						break
					}
					time.Sleep(10 * time.Millisecond)
				}
				if !ok {
					if st, dump := isStalled(); st {
						c.Viol("C16", idx, "no-reconnect", fmt.Sprintf("after the server closed the connection (sequence [%s]) the client never reconnected and nothing can move", names), dump)
					} else {
						c.Log.Emit(coreInconclusive("c16: reconnect.done hook not seen after close"))
					}
					return
				}
				// within a run of closes the server says nothing in between: the probe follows the last one
				if si+1 < len(seq) && seq[si+1].Name == "close" && len(seq) >= 8 {
					c.Count("reconnects.observed", 1)
					continue
				}
				if !probe("after-close") {
					return
				}
				if c16plainFrames(e) != plainBefore {
					c.Viol("C16", idx, "reconnect-did-key-exchange", "after a connection close the client sent plaintext (key-exchange) frames instead of resuming with the same auth key", names)
				}
				c.Count("reconnects.observed", 1)
			}
			continue
		}
		if pendingMode {
			heldMu.Lock()
			last.msgID = held.msgID
			heldMu.Unlock()
		}
		body := it.build(r, e, last)
		// any item may also travel inside a container next to an update, or gzip-packed
		switch {
		case len(seq) > 1 && r.Intn(5) == 0:
			body = refserver.Container([]refserver.Out{{MsgID: e.srv.NextMsgID(3), SeqNo: cn.NextSeq(it.Content), Body: body}, {MsgID: e.srv.NextMsgID(3), SeqNo: cn.NextSeq(true), Body: apiUpdateBody(r)}})
			c.Count("wrapped.container", 1)
			e.sendService(cn, body, false, it.Name+"+container")
			continue
		case len(seq) > 1 && r.Intn(8) == 0:
			body = refserver.Gzip(body)
			c.Count("wrapped.gzip", 1)
		}
		e.sendService(cn, body, it.Content, it.Name)
	}
	e.quiesce(time.Second)
	if !probe("after") {
		return
	}
	if variant%4 != 0 {
		c.Count("custom_handler.calls", int64(atomic.LoadInt32(&handled)))
	}
	c.Count(fmt.Sprintf("variant.handler=%d.warnings=%v", variant%4, variant%5 != 4), 1)
	e.w.mu.Lock()
	c.Count("warnings.surfaced", int64(len(e.w.warns)))
	e.w.mu.Unlock()
	c.Distinct("seq", names, variant%2, pendingMode)
	if idx%9 == 0 {
		c.Sample(map[string]interface{}{"sequence": names, "custom_handler": variant%2 == 1})
	}
}

func c16plainFrames(e *rpcEnv) int {
	n := 0
	e.w.mu.Lock()
	for _, ev := range e.w.evs {
		if ev.Ev == "srv.plain" {
			n++
		}
	}
	e.w.mu.Unlock()
	return n
}

func c16idle(c *wk.Ctx, idx int, r *rand.Rand, variant int) {
	var pings int32
	e, err := newRPCEnv(c, idx, r, envOpts{
		Any: func(e *rpcEnv, cn *refserver.Conn, in *mtp.Inner) bool {
			if u32le0(in.Body) == 0x7abe77ec && len(in.Body) >= 12 { // ping#7abe77ec ping_id:long
				atomic.AddInt32(&pings, 1)
				if variant == 0 {
					pid := int64(leU64(in.Body[4:12]))
					e.sendService(cn, refserver.Pong(in.MsgID, pid), true, "pong")
				}
				return true
			}
			return false
		},
		Handler: func(e *rpcEnv, p pendingReq, in *mtp.Inner) bool {
			e.sendGroup(p.conn, [][]byte{e.resultBody(p, wrapOpts{})}, []uint64{p.uid}, false)
			return true
		}})
	if err != nil {
		c.Viol("C16", idx, "setup", err.Error(), nil)
		return
	}
	defer e.close()
	used := map[uint64]bool{}
	probe := func(stage string) bool {
		var rec callRec
		uid := uidFor(r, "object", used)
		if !withTimeout(40*time.Second, func() { rec = e.doCall(0, uid, "object", false) }) {
			if st, dump := isStalled(); st {
				c.Viol("C16", idx, "idle/probe-stall/"+stage, "after a long idle period a request never completes and nothing can move", dump)
			} else {
				c.Log.Emit(coreInconclusive("c16 idle: probe did not return (" + stage + ")"))
			}
			return false
		}
		if rec.Panic != "" || rec.Err != "" || !rec.OK {
			c.Viol("C16", idx, "idle/probe-failed/"+stage, fmt.Sprintf("panic=%q err=%q got=%q", rec.Panic, rec.Err, rec.Got), nil)
			return false
		}
		return true
	}
	if !probe("before") {
		return
	}
	time.Sleep(62 * time.Second) // the keep-alive ticker fires at 60 s
	c.Count("idle.pings_seen", int64(atomic.LoadInt32(&pings)))
	if !probe("after-first-ping") {
		return
	}
	time.Sleep(70 * time.Second) // silence beyond the 65 s read deadline
	if !probe("after-read-deadline") {
		return
	}
	c.Distinct("idle", variant, atomic.LoadInt32(&pings) > 0)
}
