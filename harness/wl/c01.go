package wl

import (
	"bytes"
	"fmt"
	"math/rand"
	"reflect"
	"strings"
	"sync"

	"github.com/xelaj/mtproto/internal/encoding/tl"
	"github.com/xelaj/mtproto/zverif/bridge"
	"github.com/xelaj/mtproto/zverif/gen"
	"github.com/xelaj/mtproto/zverif/wk"
)

func init() { wk.Register("c01", c01) }

var (
	uniOnce sync.Once
	uni     *gen.Universe
)

// Decode-only types: the library deliberately defines no Marshal direction for them
// (gzip_packed: MarshalTL is `panic("not implemented")`; msg_copy's payload type has no id;
// msg_container is a slice type with its own codec and is exercised from reference bytes in C02/C15).
var c01DecodeOnly = map[string]bool{"*objects.GzipPacked": true, "*objects.MsgCopy": true, "*objects.MessageContainer": true}

func universe() *gen.Universe {
	uniOnce.Do(func() { uni = gen.NewUniverse(bridge.Objects, bridge.Enums, c01DecodeOnly) })
	return uni
}

func c01(c *wk.Ctx) {
	u := universe()
	// the hand-written wrappers are not registered but are constructors the library knows
	types := append([]reflect.Type{}, u.Types...)
	for _, t := range bridge.Wrappers {
		types = append(types, t)
	}
	c.Count("types", int64(len(types)))
	for name := range c01DecodeOnly {
		c.Note("marshal_direction_not_defined_by_the_library", name)
	}
	idx := 0
	// cold start (every shard, before anything else was encoded or decoded in this process): eight goroutines encode
	// and decode values of their own at once, as the callers and the receive loops of an application do
	c.Begin(idx, "cold concurrent round trips")
	{
		r := c.Rand(idx + c.Shard*7919)
		type item struct {
			t reflect.Type
			v reflect.Value
		}
		sets := make([][]item, 8)
		for gi := range sets {
			for len(sets[gi]) < 40 {
				t := u.Types[r.Intn(len(u.Types))]
				if t.Kind() != reflect.Ptr {
					continue
				}
				g := &gen.G{U: u, R: r, MaxDepth: 1 + r.Intn(3), ForceStrLen: -1, ImplPick: -1}
				var v reflect.Value
				if pan, _, _ := wk.Guard(func() { v = g.Object(t, nil, 0) }); pan {
					continue
				}
				sets[gi] = append(sets[gi], item{t, v})
			}
		}
		res := concurrently(8, int64(idx), func(gi int, _ *rand.Rand) string {
			for round := 0; round < 4; round++ {
				for _, it := range sets[gi] {
					b, err := tl.Marshal(it.v.Interface())
					if err != nil {
						return fmt.Sprintf("marshal-error: %v: %v", it.t, err)
					}
					obj, err := tl.DecodeUnknownObject(b)
					if err != nil {
						return fmt.Sprintf("decode-error: %v encoded and decoded while 7 other goroutines do the same for the first time in this process: %v", it.t, err)
					}
					if d := gen.Equal(it.v, reflect.ValueOf(obj), it.t.String()); d != "" {
						return fmt.Sprintf("decode-differs: %v: %s", it.t, d)
					}
					b2, err := tl.Marshal(it.v.Interface())
					if err != nil || !bytes.Equal(b, b2) {
						return fmt.Sprintf("marshal-differs: %v: second serialisation differs at offset %d (err=%v)", it.t, firstDiff(b, b2), err)
					}
				}
			}
			return ""
		})
		c.Count("evaluations", 8*40*4)
		c.Count("cold_concurrent_round_trips", 8*40*4)
		for _, m := range res {
			if m != "" {
				c.Viol("C01", idx, "concurrent/"+strings.SplitN(m, ":", 2)[0], m, nil)
			}
		}
	}
	idx++
	perType := c.Pick(24, 2500)
	boundary := []int{0, 1, 2, 3, 4, 5, 6, 7, 252, 253, 254, 255, 256, 257, 65535, 65536}
	for ti, t := range types {
		var bits []int
		if t.Kind() == reflect.Ptr && t.Elem().Kind() == reflect.Struct {
			bits = gen.FlagGroups(t.Elem())
		}
		var patterns []map[int]bool
		none, all := map[int]bool{}, map[int]bool{}
		for _, b := range bits {
			all[b] = true
		}
		patterns = append(patterns, none, all)
		if len(bits) <= 10 && !c.Quick() {
			for m := 1; m < (1<<len(bits))-1; m++ {
				p := map[int]bool{}
				for j, b := range bits {
					if m&(1<<j) != 0 {
						p[b] = true
					}
				}
				patterns = append(patterns, p)
			}
		} else {
			for _, b := range bits {
				patterns = append(patterns, map[int]bool{b: true})
			}
		}
		if t.Kind() == reflect.Uint32 {
			// every enum member
			for _, id := range u.EnumVals[t] {
				if c.Mine(idx) {
					c.Begin(idx, fmt.Sprintf("%v member %#08x", t, id))
					c01one(c, idx, t, reflect.ValueOf(id).Convert(t), "enum", false)
				}
				idx++
			}
			continue
		}
		total := len(patterns) + perType
		for k := 0; k < total; k++ {
			if c.Mine(idx) {
				r := c.Rand(idx)
				g := &gen.G{U: u, R: r, MaxDepth: 1 + r.Intn(4), ForceStrLen: -1, ImplPick: -1}
				var pres map[int]bool
				if k < len(patterns) {
					pres = patterns[k]
				}
				if k%2 == 1 {
					g.ForceStrLen = boundary[(ti+k/2)%len(boundary)]
				}
				if k >= len(patterns) {
					g.ImplPick = k - len(patterns) + ti // walk through the implementers of the first interface field
				}
				c.Begin(idx, fmt.Sprintf("%v pattern=%v depth=%d", t, pres, g.MaxDepth))
				var v reflect.Value
				pan, pm, st := wk.Guard(func() {
					v = g.Object(t, pres, 0)
					// a third of the random values share sub-objects (the same pointer used twice is still a value)
					if k >= len(patterns) && k%3 == 0 {
						if n := gen.Alias(v, 0); n > 0 {
							c.Count("values.with_shared_subobjects", 1)
						}
					}
				})
				if pan {
					c.Log.Emit(coreInconclusive("generator: " + pm + " " + st))
				} else {
					c01one(c, idx, t, v, presenceMask(bits, pres), len(bits) > 0 && pres != nil)
					if idx%4001 == 0 {
						c.Sample(map[string]interface{}{"type": t.String(), "presence": fmt.Sprint(pres), "shape": wk.Short(gen.Shape(v, 0), 200)})
					}
				}
			}
			idx++
		}
		// many siblings: one vector of hundreds of cheap elements (state that the codec carries from one
		// element to the next — counters, depth, scratch buffers — only shows with many of them)
		if hasVectorField(t) {
			lens := []int{700}
			if !c.Quick() {
				lens = []int{513, 1500, 6000}
			}
			for _, n := range lens {
				if c.Mine(idx) {
					r := c.Rand(idx)
					g := &gen.G{U: u, R: r, MaxDepth: 1, ForceStrLen: -1, ImplPick: -1, ForceVecLen: n}
					all := map[int]bool{}
					for _, b := range bits {
						all[b] = true
					}
					c.Begin(idx, fmt.Sprintf("%v vector-of-%d", t, n))
					var v reflect.Value
					pan, pm, st := wk.Guard(func() { v = g.Object(t, all, 0) })
					if pan {
						c.Log.Emit(coreInconclusive("generator: " + pm + " " + st))
					} else {
						c01one(c, idx, t, v, fmt.Sprintf("vec%d", n), true)
						c.Count("values.with_long_vectors", 1)
					}
				}
				idx++
			}
		}
	}
	// vector results: a bare vector is decoded with the caller's prediction of its element type (what every method
	// with a Vector<> result does). Sizes on both sides of 2^16; the same prediction slice is used for two decodes
	// in a row and must come back untouched.
	vecElems := []reflect.Type{reflect.TypeOf(int32(0)), reflect.TypeOf(int64(0)), reflect.TypeOf(""), reflect.TypeOf([]byte{}), reflect.TypeOf(float64(0))}
	for _, t := range u.Types {
		if t.Kind() == reflect.Ptr && len(vecElems) < 5+c.Pick(24, 400) && (len(vecElems)%2 == 0 || t.Elem().NumField() <= 2) {
			vecElems = append(vecElems, t)
		}
	}
	for _, it := range u.Ifaces() {
		if len(u.Implementers(it)) > 0 && len(vecElems) < 5+c.Pick(40, 800) {
			vecElems = append(vecElems, it)
		}
	}
	for ei, et := range vecElems {
		sizes := []int{0, 1, 3}
		if ei < 5 || ei%6 == 5 {
			sizes = append(sizes, 700, 65535, 65536, 65537, 70000)
		}
		for _, n := range sizes {
			if c.Mine(idx) {
				r := c.Rand(idx)
				c.Begin(idx, fmt.Sprintf("vector-result []%v n=%d", et, n))
				g := &gen.G{U: u, R: r, MaxDepth: 1, ForceStrLen: -1, ImplPick: -1, Simple: n > 100}
				st := reflect.SliceOf(et)
				sl := reflect.MakeSlice(st, n, n)
				pan, pm, stk := wk.Guard(func() {
					for i := 0; i < n; i++ {
						sl.Index(i).Set(g.Value(et, 1, true))
					}
				})
				if pan {
					c.Log.Emit(coreInconclusive("generator: " + pm + " " + stk))
				} else {
					c01vector(c, idx, st, sl)
				}
			}
			idx++
		}
	}
	// boundary: the longest legal string and the first illegal one
	for _, n := range []int{1<<24 - 1, 1 << 24} {
		if c.Mine(idx) {
			c.Begin(idx, fmt.Sprintf("limit %d", n))
			v := &tlRpcErr{}
			_ = v
			obj := reflect.New(bridge.Objects[0x2144ca19].Elem()) // rpc_error: code:int message:string
			obj.Elem().Field(1).SetString(string(make([]byte, n)))
			var b []byte
			var err error
			pan, pm, st := wk.Guard(func() { b, err = tl.Marshal(obj.Interface()) })
			switch {
			case pan:
				c.Viol("C01", idx, "limit/panic/"+st, pm, n)
			case n >= 1<<24 && err == nil:
				c.Viol("C01", idx, "limit/too-long-accepted", fmt.Sprintf("%d-byte string serialised into %d bytes", n, len(b)), n)
			case n < 1<<24:
				if err != nil {
					c.Viol("C01", idx, "limit/longest-refused", err.Error(), n)
				} else {
					back := reflect.New(obj.Type().Elem())
					derr := tl.Decode(b, back.Interface())
					if derr != nil || gen.Equal(obj, back, "") != "" {
						c.Viol("C01", idx, "limit/longest-roundtrip", fmt.Sprint(derr), n)
					}
				}
			}
			c.Distinct("limit", n)
		}
		idx++
	}
}

type tlRpcErr struct{}

// c01prev: what the previous case got back from the library (checked again after the next calls).
var c01prev struct {
	b, cp  []byte
	t      string
	obj, v reflect.Value
}

func c01vector(c *wk.Ctx, idx int, st reflect.Type, sl reflect.Value) {
	var b []byte
	var err error
	pan, pm, stk := wk.Guard(func() { b, err = tl.Marshal(sl.Interface()) })
	if pan || err != nil {
		c.Viol("C01", idx, "vector-result/marshal/"+stk, fmt.Sprint(pm, err), st.String())
		return
	}
	hints := []reflect.Type{st}
	for rep := 0; rep < 2; rep++ {
		var obj tl.Object
		pan, pm, stk = wk.Guard(func() { obj, err = tl.DecodeUnknownObject(b, hints...) })
		what := fmt.Sprintf("%v with %d elements, decode #%d with the same prediction slice", st, sl.Len(), rep+1)
		switch {
		case pan:
			c.Viol("C01", idx, "vector-result/panic/"+stk, what+": "+wk.Short(pm, 300), st.String())
			return
		case err != nil:
			c.Viol("C01", idx, fmt.Sprintf("vector-result/error/decode=%d", rep+1), what+": "+err.Error(), st.String())
			return
		}
		ws, ok := obj.(*tl.WrappedSlice)
		if !ok {
			c.Viol("C01", idx, "vector-result/type", fmt.Sprintf("%s: got %T", what, obj), st.String())
			return
		}
		got := reflect.ValueOf(ws.Unwrap())
		if got.Type() != st {
			c.Viol("C01", idx, "vector-result/slice-type", fmt.Sprintf("%s: got %v", what, got.Type()), st.String())
			return
		}
		if got.Len() != sl.Len() {
			c.Viol("C01", idx, "vector-result/length", fmt.Sprintf("%s: %d elements came back", what, got.Len()), st.String())
			return
		}
		if d := gen.Equal(sl, got, st.String()); d != "" {
			c.Viol("C01", idx, "vector-result/differs", what+": "+d, st.String())
			return
		}
		if len(hints) != 1 || hints[0] != st {
			c.Viol("C01", idx, "vector-result/prediction-slice-modified", fmt.Sprintf("%s: the caller's prediction slice now holds %v", what, hints), st.String())
			return
		}
	}
	sz := "small"
	if sl.Len() > 60000 {
		sz = "around-2^16"
	}
	c.Distinct("vector-result", st.String(), sl.Len())
	c.Count("vector_results."+sz, 1)
}

func hasVectorField(t reflect.Type) bool {
	if t.Kind() != reflect.Ptr || t.Elem().Kind() != reflect.Struct {
		return false
	}
	for i := 0; i < t.Elem().NumField(); i++ {
		f := t.Elem().Field(i)
		if f.Type.Kind() == reflect.Slice && f.Type.Elem().Kind() != reflect.Uint8 && f.Tag.Get("tl") != "-" && f.PkgPath == "" {
			return true
		}
	}
	return false
}

func c01one(c *wk.Ctx, idx int, t reflect.Type, v reflect.Value, mask string, nontrivialPattern bool) {
	var b1, b2 []byte
	var err error
	pan, pm, st := wk.Guard(func() { b1, err = tl.Marshal(v.Interface()) })
	if pan {
		c.Viol("C01", idx, "marshal/panic/"+st, t.String()+": "+wk.Short(pm, 300), t.String())
		return
	}
	if err != nil {
		c.Viol("C01", idx, "marshal/error/"+t.String(), err.Error(), t.String())
		return
	}
	// results handed out earlier stay what they were: the bytes of the previous case are still held here
	if c01prev.b != nil && !bytes.Equal(c01prev.b, c01prev.cp) {
		c.Viol("C01", idx, "marshal/earlier-result-overwritten", fmt.Sprintf("the bytes returned by Marshal(%s) changed at offset %d while %s was being serialised", c01prev.t, firstDiff(c01prev.b, c01prev.cp), t), t.String())
		c01prev.b = nil
	}
	pan, pm, st = wk.Guard(func() { b2, err = tl.Marshal(v.Interface()) })
	if pan || err != nil || !bytes.Equal(b1, b2) {
		c.Viol("C01", idx, "marshal/not-deterministic/"+t.String(), fmt.Sprint(pm, err), t.String())
		return
	}
	defer func() {
		c01prev.b, c01prev.cp, c01prev.t = b1, append([]byte(nil), b1...), t.String()
	}()
	_, isWrapper := wrapperType(t)
	// (a) decoder chooses the type from the constructor id
	if !isWrapper {
		var obj tl.Object
		pan, pm, st = wk.Guard(func() { obj, err = tl.DecodeUnknownObject(b1) })
		switch {
		case pan:
			c.Viol("C01", idx, "unknown/panic/"+st, t.String()+": "+wk.Short(pm, 300), fmt.Sprintf("%x", wk.Short(string(b1), 200)))
		case err != nil:
			c.Viol("C01", idx, "unknown/error/"+t.String(), fmt.Sprintf("presence %s: %v", mask, err), fmt.Sprintf("%x", wk.Short(string(b1), 200)))
		default:
			if d := gen.Equal(v, reflect.ValueOf(obj), t.String()); d != "" {
				c.Viol("C01", idx, "unknown/differs/"+t.String(), fmt.Sprintf("presence %s: %s", mask, d), fmt.Sprintf("%x", wk.Short(string(b1), 200)))
			}
		}
	}
	// (b) naming the expected type
	var target reflect.Value
	if t.Kind() == reflect.Ptr {
		target = reflect.New(t.Elem())
	} else {
		target = reflect.New(t)
	}
	pan, pm, st = wk.Guard(func() { err = tl.Decode(b1, target.Interface()) })
	kind := "struct"
	if t.Kind() == reflect.Uint32 {
		kind = "enum"
	}
	switch {
	case pan:
		c.Viol("C01", idx, "named/panic/"+kind+"/"+st, t.String()+": "+wk.Short(pm, 300), t.String())
	case err != nil:
		c.Viol("C01", idx, "named/error/"+t.String(), fmt.Sprintf("presence %s: %v", mask, err), t.String())
	default:
		got := target
		if t.Kind() != reflect.Ptr {
			got = target.Elem()
		}
		if d := gen.Equal(v, got, t.String()); d != "" {
			c.Viol("C01", idx, "named/differs/"+t.String(), fmt.Sprintf("presence %s: %s", mask, d), t.String())
		} else {
			// the value decoded in the previous case is still the value it was
			if c01prev.obj.IsValid() {
				if d := gen.Equal(c01prev.v, c01prev.obj, c01prev.t); d != "" {
					c.Viol("C01", idx, "named/earlier-value-changed", fmt.Sprintf("the %s decoded earlier changed while %s was being decoded: %s", c01prev.t, t, d), t.String())
				}
			}
			c01prev.obj, c01prev.v = got, v
		}
	}
	sh := gen.Shape(v, 0)
	if nontrivialPattern || len(sh) > 8 {
		c.Distinct(t.String(), mask, core64(sh))
	} else {
		c.Count("trivial", 1)
	}
}

func wrapperType(t reflect.Type) (string, bool) {
	for n, w := range bridge.Wrappers {
		if w == t {
			return n, true
		}
	}
	return "", false
}
