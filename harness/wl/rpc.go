package wl

import (
	"encoding/json"
	"fmt"
	"github.com/xelaj/errs"
	"github.com/xelaj/mtproto/internal/transport"
	"math/rand"
	"os"
	"reflect"
	"sort"
	"strings"
	"sync"
	"sync/atomic"
	"time"

	"github.com/xelaj/mtproto"
	"github.com/xelaj/mtproto/internal/session"
	"github.com/xelaj/mtproto/telegram"
	"github.com/xelaj/mtproto/zverif/core"
	"github.com/xelaj/mtproto/zverif/ref/mtp"
	"github.com/xelaj/mtproto/zverif/refserver"
	"github.com/xelaj/mtproto/zverif/wk"
)

// ---------------------------------------------------------------------------------------------
// hook controller (H3): PRNG delays at named points; records the order of hook hits.

type hookCtl struct {
	mu         sync.Mutex
	r          *rand.Rand
	delay      map[string]int // point -> max delay in microseconds (0: none)
	seq        []string
	hits       map[string]int64
	gate       func(name string, arg int64) // optional scenario-specific steering (must never block unboundedly)
	active     int32
	prngDelays int // PRNG delays injected since start()
}

const hookAlways = 1 << 20 // delay values at or above this mean "always", not "PRNG up to"

var theHooks = &hookCtl{delay: map[string]int{}, hits: map[string]int64{}}

func init() {
	mtproto.SetVerifHook(hookFn)
	transport.SetVerifHook(hookFn) // H5: wire.written, inside transport.WriteMsg right after the socket write
}

func hookFn(name string, arg int64) {
	func() {
		h := theHooks
		if atomic.LoadInt32(&h.active) == 0 {
			return
		}
		h.mu.Lock()
		h.hits[name]++
		if len(h.seq) < 4000 {
			h.seq = append(h.seq, name)
		}
		d := 0
		if mx := h.delay[name]; mx >= hookAlways {
			d = mx - hookAlways // scripted: always hold this long at this point
		} else if mx > 0 && h.r != nil && h.prngDelays < 400 {
			// PRNG delays widen interleavings at the first few hundred points of a scenario; a point reached tens of
			// thousands of times (a container of 40000 items) is not slept at every time
			if h.r.Intn(3) == 0 {
				d = h.r.Intn(mx + 1)
				h.prngDelays++
			}
		}
		g := h.gate
		h.mu.Unlock()
		if g != nil {
			g(name, arg)
		}
		if d > 0 {
			time.Sleep(time.Duration(d) * time.Microsecond)
		}
	}()
}

func (h *hookCtl) start(r *rand.Rand, delays map[string]int, gate func(string, int64)) {
	h.mu.Lock()
	h.r = r
	h.delay = delays
	h.seq = nil
	h.gate = gate
	h.prngDelays = 0
	h.mu.Unlock()
	atomic.StoreInt32(&h.active, 1)
}

func (h *hookCtl) stop() (seq []string) {
	atomic.StoreInt32(&h.active, 0)
	h.mu.Lock()
	defer h.mu.Unlock()
	seq = h.seq
	h.seq = nil
	h.gate = nil
	return
}

func (h *hookCtl) flushCounts(c *wk.Ctx) {
	h.mu.Lock()
	for k, v := range h.hits {
		c.Count("hook."+k, v)
	}
	h.hits = map[string]int64{}
	h.mu.Unlock()
}

// ---------------------------------------------------------------------------------------------
// rpcEnv: a resumed (or freshly keyed) session between the real client and the reference server.

type recvRec struct {
	Conn  int
	Salt  int64
	Sess  int64
	MsgID int64
	SeqNo int32
	Ctor  uint32
	UID   uint64
	Kind  string // "" for non-probe messages
	Acks  []int64
}

type pendingReq struct {
	conn  *refserver.Conn
	msgID int64
	uid   uint64
	kind  string
	res   []byte
}

type rpcEnv struct {
	c    *wk.Ctx
	idx  int
	w    *world
	srv  *refserver.Server
	m    *mtproto.MTProto
	tc   *telegram.Client
	key  []byte
	sess string

	mu       sync.Mutex
	recv     []recvRec
	pending  []pendingReq
	mem      *memStore      // non-nil: the session lives in the application own storage
	mixed    bool           // answers travel in containers together with updates and service notes
	sentCont map[int64]bool // msg_ids of content-related messages the server sent (alone or in containers)
	acked    map[int64]bool
	ackCount map[int64]int                                           // how many times each server msg_id was named in a msgs_ack
	arrivals map[uint64]int                                          // uid -> times it arrived at the server
	onReq    func(e *rpcEnv, p pendingReq, in *mtp.Inner) bool       // true: handled (do not queue)
	onAny    func(e *rpcEnv, cn *refserver.Conn, in *mtp.Inner) bool // sees every message first; true: consumed
	newReq   chan struct{}
}

type envOpts struct {
	Fresh   bool // do a key exchange instead of resuming
	Handler func(e *rpcEnv, p pendingReq, in *mtp.Inner) bool
	Any     func(e *rpcEnv, cn *refserver.Conn, in *mtp.Inner) bool
	// NoWarnings: the application did not ask for warnings (MTProto.Warnings stays nil)
	NoWarnings bool
	// MemStore: the application brings its own session storage (Config.SessionStorage) instead of a file
	MemStore bool
	// Plain: no mixing of non-answer items into answer containers (workloads that count what they sent themselves)
	Plain bool
}

func newRPCEnv(c *wk.Ctx, idx int, r *rand.Rand, o envOpts) (*rpcEnv, error) {
	e := &rpcEnv{c: c, idx: idx, w: newWorld(c, idx), sentCont: map[int64]bool{}, acked: map[int64]bool{}, ackCount: map[int64]int{}, arrivals: map[uint64]int{}, onReq: o.Handler, onAny: o.Any, newReq: make(chan struct{}, 1024)}
	e.srv = e.w.server(refserver.HandlerFunc(e.onMessage))
	e.mixed = !o.Plain && idx%3 == 1
	// the server's clock: now, 2038+ (message ids with the top bit set, as every server will produce then) or 1971
	switch idx % 7 {
	case 3:
		atomic.StoreInt64(&e.srv.ClockOffset, int64(1)<<31+int64(r.Intn(1<<30))-time.Now().Unix())
		c.Count("server_clock.2038_or_later", 1)
	case 5:
		atomic.StoreInt64(&e.srv.ClockOffset, int64(365*86400+r.Intn(1<<20))-time.Now().Unix())
		c.Count("server_clock.1971", 1)
	}
	e.sess = e.w.sessionPath("s")
	if o.MemStore {
		e.mem = &memStore{}
		e.w.store = e.mem
	}
	if !o.Fresh {
		e.key = rbytes(r, 256)
		switch idx % 9 {
		case 4:
			e.key = cornerKey("head") // key id 00000000xxxxxxxx
			c.Count("auth_key.key_id_starts_with_4_zero_bytes", 1)
		case 7:
			e.key = cornerKey("tail") // key id xxxxxxxx00000000
			c.Count("auth_key.key_id_ends_with_4_zero_bytes", 1)
		}
		salt := int64(r.Uint64())
		e.w.keys.Add(e.key)
		e.srv.SetSalt(e.key, salt)
		var st session.SessionLoader = session.NewFromFile(e.sess)
		if e.mem != nil {
			st = e.mem
		}
		if err := st.Store(&session.Session{Key: e.key, Hash: mtp.AuthKeyID(e.key), Salt: salt, Hostname: e.srv.Addr}); err != nil {
			return nil, err
		}
	}
	m, err := e.w.client(e.srv.Addr, e.sess, e.srv)
	if err != nil {
		return nil, err
	}
	if o.NoWarnings {
		ch := m.Warnings
		m.Warnings = nil
		close(ch) // ends the drain goroutine
	}
	e.m = m
	e.tc = &telegram.Client{MTProto: m}
	var cerr error
	var pan bool
	var pm string
	if !withTimeout(60*time.Second, func() { pan, pm, _ = wk.Guard(func() { cerr = m.CreateConnection() }) }) {
		return nil, fmt.Errorf("CreateConnection did not return")
	}
	if pan {
		return nil, fmt.Errorf("CreateConnection panicked: %s", pm)
	}
	if cerr != nil {
		return nil, cerr
	}
	if o.Fresh {
		e.key = m.GetAuthKey()
	}
	return e, nil
}

func (e *rpcEnv) close() {
	safeDisconnect(e.m)
	e.w.close()
}

func (e *rpcEnv) salt() int64 {
	s, _ := e.srv.Salt(e.key)
	return s
}

// onMessage runs on the server's connection goroutine for every decrypted client message.
func (e *rpcEnv) onMessage(cn *refserver.Conn, in *mtp.Inner) {
	rec := recvRec{Conn: cn.ID, Salt: in.Salt, Sess: in.Session, MsgID: in.MsgID, SeqNo: in.SeqNo, Ctor: u32le0(in.Body)}
	if e.onAny != nil && e.onAny(e, cn, in) {
		if ids := refserver.ParseMsgsAck(in.Body); ids != nil {
			rec.Acks = ids
		} else if uid, kind, _, ok := answerFor(in.Body); ok {
			rec.UID, rec.Kind = uid, kind
			e.mu.Lock()
			e.arrivals[uid]++
			e.mu.Unlock()
		}
		e.mu.Lock()
		e.recv = append(e.recv, rec)
		e.mu.Unlock()
		return
	}
	if ids := refserver.ParseMsgsAck(in.Body); ids != nil {
		rec.Acks = ids
		e.mu.Lock()
		for _, id := range ids {
			e.acked[id] = true
			e.ackCount[id]++
		}
		e.recv = append(e.recv, rec)
		e.mu.Unlock()
		return
	}
	body := in.Body
	// unwrap invokeWithLayer / initConnection is not needed: scenarios send bare functions
	uid, kind, res, ok := answerFor(body)
	if ok {
		rec.UID, rec.Kind = uid, kind
	}
	e.mu.Lock()
	e.recv = append(e.recv, rec)
	if ok {
		e.arrivals[uid]++
	}
	e.mu.Unlock()
	if !ok {
		return
	}
	p := pendingReq{conn: cn, msgID: in.MsgID, uid: uid, kind: kind, res: res}
	if e.onReq != nil && e.onReq(e, p, in) {
		return
	}
	e.mu.Lock()
	e.pending = append(e.pending, p)
	e.mu.Unlock()
	select {
	case e.newReq <- struct{}{}:
	default:
	}
}

func u32le0(b []byte) uint32 {
	if len(b) < 4 {
		return 0
	}
	return u32le(b)
}

// takePending removes and returns the queued requests.
func (e *rpcEnv) takePending() []pendingReq {
	e.mu.Lock()
	defer e.mu.Unlock()
	p := e.pending
	e.pending = nil
	return p
}

type wrapOpts struct {
	GzipResult  bool // rpc_result{ gzip_packed{result} }
	GzipMessage bool // gzip_packed{ rpc_result{...} }
	AsError     bool
}

func (e *rpcEnv) resultBody(p pendingReq, o wrapOpts) []byte {
	res := p.res
	if o.AsError {
		res = refserver.RPCError(int32(400+p.uid%100), fmt.Sprintf("UID_%d_ERROR", p.uid))
	}
	if o.GzipResult {
		res = refserver.Gzip(res)
	}
	b := refserver.RPCResult(p.msgID, res)
	if o.GzipMessage {
		b = refserver.Gzip(b)
	}
	return b
}

// sendGroup sends answers as one plain message (len 1 and !forceContainer) or as one container.
func (e *rpcEnv) sendGroup(cn *refserver.Conn, bodies [][]byte, uids []uint64, forceContainer bool) {
	salt := e.salt()
	// a busy server bundles whatever it has for the client: updates and service notes travel in the same container,
	// in front of, between and behind the answers
	mixed := e.mixed && len(uids) > 0 && uids[0]%2 == 0
	if mixed {
		var items []refserver.Out
		other := func(k uint64) refserver.Out {
			id := e.srv.NextMsgID(3)
			switch k % 3 {
			case 0: // an update (content-related)
				e.mu.Lock()
				e.sentCont[id] = true
				e.mu.Unlock()
				return refserver.Out{MsgID: id, SeqNo: cn.NextSeq(true), Body: append(append(le32(0x78d4dec1), le32(0x7084a7be)...), le32(uint32(k))...)}
			case 1: // msg_new_detailed_info answer_msg_id bytes status
				return refserver.Out{MsgID: id, SeqNo: cn.NextSeq(false), Body: append(append(append(le32(0x809db6df), le64(k|1)...), le32(10)...), le32(0)...)}
			}
			return refserver.Out{MsgID: id, SeqNo: cn.NextSeq(false), Body: refserver.Pong(int64(k), int64(k>>3))}
		}
		items = append(items, other(uids[0]>>8))
		for i, b := range bodies {
			id := e.srv.NextMsgID(1)
			e.mu.Lock()
			e.sentCont[id] = true
			e.mu.Unlock()
			items = append(items, refserver.Out{MsgID: id, SeqNo: cn.NextSeq(true), Body: b})
			if (uids[i]>>4)%3 == 0 {
				items = append(items, other(uids[i]>>12))
			}
		}
		e.c.Count("containers.mixed_with_non_answers", 1)
		cn.SendEncrypted(refserver.Out{MsgID: e.srv.NextMsgID(1), SeqNo: cn.NextSeq(false), Body: refserver.Container(items)}, salt, "container", map[string]interface{}{"n": len(items), "uids": fmt.Sprint(uids), "mixed": true})
		return
	}
	if len(bodies) == 1 && !forceContainer {
		id := e.srv.NextMsgID(1)
		e.mu.Lock()
		e.sentCont[id] = true
		e.mu.Unlock()
		cn.SendEncrypted(refserver.Out{MsgID: id, SeqNo: cn.NextSeq(true), Body: bodies[0]}, salt, "rpc_result", map[string]interface{}{"uid": fmt.Sprint(uids[0])})
		return
	}
	var items []refserver.Out
	for _, b := range bodies {
		id := e.srv.NextMsgID(1)
		e.mu.Lock()
		e.sentCont[id] = true
		e.mu.Unlock()
		items = append(items, refserver.Out{MsgID: id, SeqNo: cn.NextSeq(true), Body: b})
	}
	cn.SendEncrypted(refserver.Out{MsgID: e.srv.NextMsgID(1), SeqNo: cn.NextSeq(false), Body: refserver.Container(items)}, salt, "container", map[string]interface{}{"n": len(items), "uids": fmt.Sprint(uids)})
}

// sendService sends one message built by the scenario (content-related or not).
func (e *rpcEnv) sendService(cn *refserver.Conn, body []byte, content bool, kind string) int64 {
	low := int64(3)
	id := e.srv.NextMsgID(low)
	if content {
		e.mu.Lock()
		e.sentCont[id] = true
		e.mu.Unlock()
	}
	cn.SendEncrypted(refserver.Out{MsgID: id, SeqNo: cn.NextSeq(content), Body: body}, e.salt(), kind, nil)
	return id
}

// ---------------------------------------------------------------------------------------------
// client-side calls with unambiguous histories

type callRec struct {
	Caller  int
	UID     uint64
	Kind    string
	Via     string // "MakeRequest" / "telegram.Client"
	Err     string
	ErrCode int
	Got     string // digest of what came back
	OK      bool   // result carries the stamp of this uid
	Panic   string
	Done    bool
}

// doCall issues one request of the given kind carrying uid and classifies the result.
func (e *rpcEnv) doCall(caller int, uid uint64, kind string, viaClient bool) callRec {
	rec := callRec{Caller: caller, UID: uid, Kind: kind, Via: "MakeRequest"}
	if viaClient {
		rec.Via = "telegram.Client"
	}
	e.w.emit("call", map[string]interface{}{"caller": caller, "uid": fmt.Sprint(uid), "kind": kind, "via": rec.Via})
	var res interface{}
	var err error
	pan, pm, st := wk.Guard(func() {
		switch kind {
		case "object":
			req := &telegram.MessagesGetDhConfigParams{Version: int32(uint32(uid)), RandomLength: int32(uint32(uid >> 32))}
			if viaClient {
				res, err = e.tc.MessagesGetDhConfig(req.Version, req.RandomLength)
			} else {
				res, err = e.m.MakeRequest(req)
			}
		case "bool":
			name := fmt.Sprintf("%016x", uid)
			if viaClient {
				res, err = e.tc.AccountCheckUsername(name)
			} else {
				res, err = e.m.MakeRequest(&telegram.AccountCheckUsernameParams{Username: name})
			}
		case "vector-int":
			if viaClient {
				res, err = e.tc.ContactsGetContactIDs(int32(uint32(uid)))
			} else {
				res, err = e.m.MakeRequestWithHintToDecoder(&telegram.ContactsGetContactIDsParams{Hash: int32(uint32(uid))}, reflect.TypeOf([]int32{}))
			}
		case "vector-long":
			if viaClient {
				res, err = e.tc.MessagesReceivedQueue(int32(uint32(uid)))
			} else {
				res, err = e.m.MakeRequestWithHintToDecoder(&telegram.MessagesReceivedQueueParams{MaxQts: int32(uint32(uid))}, reflect.TypeOf([]int64{}))
			}
		case "vector-object":
			if viaClient {
				res, err = e.tc.MessagesReceivedMessages(int32(uint32(uid)))
			} else {
				res, err = e.m.MakeRequestWithHintToDecoder(&telegram.MessagesReceivedMessagesParams{MaxID: int32(uint32(uid))}, reflect.TypeOf([]*telegram.ReceivedNotifyMessage{}))
			}
		}
	})
	rec.Done = true
	if pan {
		rec.Panic = st + ": " + wk.Short(pm, 200)
	} else if err != nil {
		rec.Err = wk.Short(err.Error(), 200)
		var rc *mtproto.ErrResponseCode
		if asErr(err, &rc) {
			rec.ErrCode = rc.Code
			rec.Got = rc.Message
		}
	} else {
		rec.OK, rec.Got = checkStamp(uid, kind, res)
	}
	e.w.emit("ret", map[string]interface{}{"caller": caller, "uid": fmt.Sprint(uid), "ok": rec.OK, "err": rec.Err, "panic": rec.Panic, "got": rec.Got})
	return rec
}

func asErr(err error, target **mtproto.ErrResponseCode) bool {
	for err != nil {
		if rc, ok := err.(*mtproto.ErrResponseCode); ok {
			*target = rc
			return true
		}
		u, ok := err.(interface{ Unwrap() error })
		if !ok {
			c, ok2 := err.(interface{ Cause() error })
			if !ok2 {
				return false
			}
			err = c.Cause()
			continue
		}
		err = u.Unwrap()
	}
	return false
}

func checkStamp(uid uint64, kind string, res interface{}) (bool, string) {
	st := stamp(uid)
	switch kind {
	case "object":
		nm, ok := res.(*telegram.MessagesDhConfigNotModified)
		if !ok {
			return false, fmt.Sprintf("%T", res)
		}
		return len(nm.Random) == 8 && leU64(nm.Random) == st, fmt.Sprintf("dhConfigNotModified %x", nm.Random)
	case "bool":
		b, ok := res.(bool)
		if !ok {
			return false, fmt.Sprintf("%T", res)
		}
		return b == (st&1 == 1), fmt.Sprint(b)
	case "vector-int":
		v, ok := res.([]int32)
		if !ok {
			return false, fmt.Sprintf("%T", res)
		}
		return len(v) == 3 && uint32(v[0]) == uint32(uid) && uint32(v[1]) == uint32(st) && uint32(v[2]) == uint32(st>>32), fmt.Sprint(v)
	case "vector-long":
		v, ok := res.([]int64)
		if !ok {
			return false, fmt.Sprintf("%T", res)
		}
		n := bigLen(uid)
		if len(v) != 2+n || uint64(v[0]) != uid || uint64(v[1]) != st {
			return false, wk.Short(fmt.Sprint(v), 120)
		}
		for i := 0; i < n; i++ {
			if uint64(v[2+i]) != bigElem(st, i) {
				return false, fmt.Sprintf("%d elements, element %d is not the server's", len(v), 2+i)
			}
		}
		return true, fmt.Sprintf("[%d %d] +%d", v[0], v[1], n)
	case "vector-object":
		v, ok := res.([]*telegram.ReceivedNotifyMessage)
		if !ok {
			return false, fmt.Sprintf("%T", res)
		}
		return len(v) == 2 && uint32(v[0].ID) == uint32(uid) && uint32(v[0].Flags) == uint32(st) && uint32(v[1].Flags) == uint32(st>>32), fmt.Sprintf("%d items %v", len(v), func() []int32 {
			var o []int32
			for _, x := range v {
				if x != nil {
					o = append(o, x.ID, x.Flags)
				}
			}
			return o
		}())
	}
	return false, "?"
}

var rpcKinds = []string{"object", "bool", "vector-int", "vector-long", "vector-object"}

// uidFor makes a uid that is unique within a scenario and fits the carrier of its kind.
func uidFor(r *rand.Rand, kind string, used map[uint64]bool) uint64 {
	for {
		var u uint64
		switch kind {
		case "object", "bool":
			u = r.Uint64()
		default:
			u = uint64(r.Uint32())
		}
		if u != 0 && !used[u] && !used[u&0xffffffff] {
			used[u] = true
			used[u&0xffffffff] = true
			return u
		}
	}
}

// quiesce waits until no event has been logged for a few polls (bounded); returns false if the bound was hit.
func (e *rpcEnv) quiesce(max time.Duration) bool {
	deadline := time.Now().Add(max)
	last := -1
	stable := 0
	for time.Now().Before(deadline) {
		e.w.mu.Lock()
		n := len(e.w.evs)
		e.w.mu.Unlock()
		if n == last {
			stable++
			if stable >= 4 {
				return true
			}
		} else {
			stable = 0
			last = n
		}
		time.Sleep(15 * time.Millisecond)
	}
	return false
}

func interleavingSig(seq []string) uint64 {
	return core.Hash64(strings.Join(seq, ","))
}

func sortedKinds(m map[string]int) string {
	var ks []string
	for k, v := range m {
		ks = append(ks, fmt.Sprintf("%s=%d", k, v))
	}
	sort.Strings(ks)
	return strings.Join(ks, " ")
}

func toJSON(v interface{}) string { b, _ := json.Marshal(v); return string(b) }

// memStore is an application-supplied session storage (what Config.SessionStorage is for).
type memStore struct {
	mu       sync.Mutex
	s        *session.Session
	stores   int
	slowNext int32 // 1: the next Store takes 200 ms
}

func (m *memStore) Load() (*session.Session, error) {
	m.mu.Lock()
	defer m.mu.Unlock()
	if m.s == nil {
		return nil, errs.NotFound("session", "memory")
	}
	cp := *m.s
	cp.Key, cp.Hash = append([]byte{}, m.s.Key...), append([]byte{}, m.s.Hash...)
	return &cp, nil
}

func (m *memStore) Store(s *session.Session) error {
	if atomic.CompareAndSwapInt32(&m.slowNext, 1, 0) {
		time.Sleep(200 * time.Millisecond) // a slow medium, once
	}
	m.mu.Lock()
	defer m.mu.Unlock()
	cp := *s
	cp.Key, cp.Hash = append([]byte{}, s.Key...), append([]byte{}, s.Hash...)
	m.s = &cp
	m.stores++
	return nil
}

// storedSession reads what the session store holds now (file or application storage).
func (e *rpcEnv) storedSession() (*session.Session, error) {
	if e.mem != nil {
		return e.mem.Load()
	}
	if _, err := os.Stat(e.sess); err != nil {
		return nil, err
	}
	return session.NewFromFile(e.sess).Load()
}
