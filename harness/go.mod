module github.com/xelaj/mtproto/zverif

go 1.21

require (
	github.com/anishathalye/porcupine v1.3.0
	github.com/pkg/errors v0.9.1
	github.com/xelaj/errs v0.0.0-20200831133608-d1c11863e019
	github.com/xelaj/go-dry v0.0.0-20210621215431-21c77821487c
	github.com/xelaj/mtproto v0.0.0
	github.com/xelaj/mtproto/internal/cmd/tlgen v0.0.0
	github.com/xelaj/mtproto/telegram/deeplinks v0.0.0
)

require (
	github.com/fatih/structtag v1.2.0 // indirect
	github.com/gorilla/schema v1.2.0 // indirect
	github.com/k0kubun/pp v3.0.1+incompatible // indirect
	github.com/mattn/go-colorable v0.1.8 // indirect
	github.com/mattn/go-isatty v0.0.12 // indirect
	golang.org/x/crypto v0.0.0-20210322153248-0c34fe9e7dc2 // indirect
	golang.org/x/sys v0.0.0-20210324051608-47abb6519492 // indirect
)

replace github.com/xelaj/mtproto => /repo

replace github.com/xelaj/mtproto/internal/cmd/tlgen => /repo/internal/cmd/tlgen

replace github.com/xelaj/mtproto/telegram/deeplinks => /repo/telegram/deeplinks
