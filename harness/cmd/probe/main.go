package main

import (
	"fmt"

	"github.com/xelaj/mtproto"
	"github.com/xelaj/mtproto/internal/cmd/tlgen/tlparser"
	"github.com/xelaj/mtproto/internal/encoding/tl"
	"github.com/xelaj/mtproto/telegram"
	"github.com/xelaj/mtproto/telegram/deeplinks"
)

func main() {
	b, err := tl.Marshal(&telegram.InputUserSelf{})
	fmt.Println(b, err)
	fmt.Println(deeplinks.Resolve("t.me/x"))
	_, err = tlparser.ParseSchema("foo#1 = Foo;")
	fmt.Println(err)
	_ = mtproto.Config{}
}
