// keysearch finds 256-byte auth keys whose key id (SHA1(key)[12:20]) has four zero bytes at its start or at its end.
// The keys are 248 fixed bytes (a SHA-256 counter-mode expansion of a label) followed by an 8-byte counter, so
// anybody can re-derive and check them. Result: the constants in wl/cornerkeys.go. Cost: about 2^32 SHA-1 each.
package main

import (
	"crypto/sha1"
	"crypto/sha256"
	"encoding/binary"
	"fmt"
	"os"
	"sync"
	"sync/atomic"
)

func prefix(label string) []byte {
	var out []byte
	for i := 0; len(out) < 248; i++ {
		h := sha256.Sum256([]byte(fmt.Sprintf("%s/%d", label, i)))
		out = append(out, h[:]...)
	}
	return out[:248]
}

func main() {
	want := os.Args[1] // "head" or "tail"
	pre := prefix("verif-corner-key-" + want)
	var found int32
	var wg sync.WaitGroup
	const workers = 16
	for w := 0; w < workers; w++ {
		wg.Add(1)
		go func(w int) {
			defer wg.Done()
			key := make([]byte, 256)
			copy(key, pre)
			for ctr := uint64(w); atomic.LoadInt32(&found) == 0; ctr += workers {
				binary.BigEndian.PutUint64(key[248:], ctr)
				h := sha1.Sum(key)
				id := h[12:20]
				ok := false
				if want == "head" {
					ok = id[0] == 0 && id[1] == 0 && id[2] == 0 && id[3] == 0
				} else {
					ok = id[4] == 0 && id[5] == 0 && id[6] == 0 && id[7] == 0
				}
				if ok && atomic.CompareAndSwapInt32(&found, 0, 1) {
					fmt.Printf("%s counter=%d keyid=%x\n", want, ctr, id)
				}
			}
		}(w)
	}
	wg.Wait()
}
