// safeprime searches a 2048-bit safe prime p = 2q+1 that is a valid Telegram SRP/DH modulus for EVERY generator
// g in 2..7: p mod 8 = 7, p mod 3 = 2, p mod 5 in {1,4}, p mod 7 in {3,5,6} (then p mod 24 = 23).
// Result: the constant in ref/srpsrv (used by C18/C19 as "another valid group").
package main

import (
	"crypto/rand"
	"fmt"
	"math/big"
	"os"
	"strconv"
	"sync"
	"sync/atomic"
)

var small []uint64

func init() {
	sieve := make([]bool, 20000)
	for i := 2; i < len(sieve); i++ {
		if !sieve[i] {
			small = append(small, uint64(i))
			for j := i * i; j < len(sieve); j += i {
				sieve[j] = true
			}
		}
	}
}

func main() {
	workers := 8
	if len(os.Args) > 1 {
		workers, _ = strconv.Atoi(os.Args[1])
	}
	var found int32
	var wg sync.WaitGroup
	for w := 0; w < workers; w++ {
		wg.Add(1)
		go func() {
			defer wg.Done()
			one := big.NewInt(1)
			for atomic.LoadInt32(&found) == 0 {
				b := make([]byte, 256)
				rand.Read(b)
				b[0] |= 0xC0
				p := new(big.Int).SetBytes(b)
				// walk p upwards in steps of 840 = lcm(8,3,5,7) from a start with the wanted residues
				p.Sub(p, new(big.Int).Mod(p, big.NewInt(840)))
				for _, r := range []int64{0} {
					_ = r
				}
				for off := int64(0); off < 840; off++ {
					t := new(big.Int).Add(p, big.NewInt(off))
					m8, m3, m5, m7 := mod(t, 8), mod(t, 3), mod(t, 5), mod(t, 7)
					if m8 == 7 && m3 == 2 && m5 == 4 && (m7 == 3 || m7 == 5 || m7 == 6) { // p = 1 mod 5 would make q = (p-1)/2 a multiple of 5
						p = t
						break
					}
				}
				step := big.NewInt(840)
				for i := 0; i < 200000 && atomic.LoadInt32(&found) == 0; i++ {
					p.Add(p, step)
					q := new(big.Int).Rsh(p, 1)
					ok := true
					for _, s := range small[1:] {
						if mod(p, s) == 0 || mod(q, s) == 0 {
							ok = false
							break
						}
					}
					if !ok {
						continue
					}
					if !q.ProbablyPrime(1) || !p.ProbablyPrime(1) {
						continue
					}
					if q.ProbablyPrime(20) && p.ProbablyPrime(20) && p.BitLen() == 2048 {
						if atomic.CompareAndSwapInt32(&found, 0, 1) {
							fmt.Printf("%x\n", p)
						}
						return
					}
					_ = one
				}
			}
		}()
	}
	wg.Wait()
}

func mod(x *big.Int, m uint64) uint64 {
	return new(big.Int).Mod(x, new(big.Int).SetUint64(m)).Uint64()
}
