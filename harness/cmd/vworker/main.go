// vworker is the child process: it runs one shard of one workload against the code in /repo and
// streams events. It may die; the parent observes that.
package main

import (
	"flag"
	"fmt"
	"os"
	"strings"

	"github.com/xelaj/mtproto/zverif/wk"
	_ "github.com/xelaj/mtproto/zverif/wl"
)

func main() {
	w := flag.String("w", "", "workload")
	seed := flag.Int64("seed", 1, "seed")
	tier := flag.String("tier", "quick", "tier")
	shard := flag.Int("shard", 0, "shard index")
	n := flag.Int("n", 1, "number of shards")
	only := flag.Int("only", -1, "run only this case index")
	from := flag.Int("from", 0, "skip case indices below this")
	logp := flag.String("log", "", "event log path")
	args := flag.String("args", "", "k=v,k=v extra arguments")
	flag.Parse()
	f := wk.Lookup(*w)
	if f == nil {
		fmt.Fprintln(os.Stderr, "unknown workload", *w, "have", wk.Names())
		os.Exit(3)
	}
	c, err := wk.NewCtx(*w, *logp, *seed, *tier, *shard, *n, *only, *from)
	if err != nil {
		fmt.Fprintln(os.Stderr, err)
		os.Exit(3)
	}
	for _, kv := range strings.Split(*args, ",") {
		if i := strings.Index(kv, "="); i > 0 {
			c.Args[kv[:i]] = kv[i+1:]
		}
	}
	f(c)
	c.Finish()
}
