// keygen writes an RSA-2048 private key (PKCS#1 PEM) with the public exponent given on the command line.
// crypto/rsa only generates e = 65537; the committed refserver/testkey_e*.pem files were made with this tool.
package main

import (
	"crypto/rand"
	"crypto/rsa"
	"crypto/x509"
	"encoding/pem"
	"fmt"
	"math/big"
	"os"
	"strconv"
)

func main() {
	e, _ := strconv.Atoi(os.Args[1])
	E := big.NewInt(int64(e))
	one := big.NewInt(1)
	for {
		p, _ := rand.Prime(rand.Reader, 1024)
		q, _ := rand.Prime(rand.Reader, 1024)
		if p.Cmp(q) == 0 {
			continue
		}
		n := new(big.Int).Mul(p, q)
		if n.BitLen() != 2048 {
			continue
		}
		pm, qm := new(big.Int).Sub(p, one), new(big.Int).Sub(q, one)
		phi := new(big.Int).Mul(pm, qm)
		if new(big.Int).GCD(nil, nil, E, phi).Cmp(one) != 0 {
			continue
		}
		d := new(big.Int).ModInverse(E, phi)
		k := &rsa.PrivateKey{PublicKey: rsa.PublicKey{N: n, E: e}, D: d, Primes: []*big.Int{p, q}}
		k.Precompute()
		if err := k.Validate(); err != nil {
			fmt.Fprintln(os.Stderr, "validate:", err)
			continue
		}
		pem.Encode(os.Stdout, &pem.Block{Type: "RSA PRIVATE KEY", Bytes: x509.MarshalPKCS1PrivateKey(k)})
		return
	}
}
