// vcheck is the parent: it builds workers from /repo's working tree, runs them as child processes,
// decides verdicts from their event logs (and their deaths), writes evidence.
// It imports nothing from /repo.
package main

import (
	"bytes"
	"encoding/json"
	"fmt"
	"os"
	"os/exec"
	"path/filepath"
	"regexp"
	"sort"
	"strconv"
	"strings"
	"sync"
	"time"

	"github.com/xelaj/mtproto/zverif/core"
)

var root string // /verif

func goEnv() []string {
	env := os.Environ()
	env = append(env, "GOFLAGS=-mod=mod", "GOPROXY=off", "GOSUMDB=off", "GOTOOLCHAIN=local", "CGO_ENABLED=1")
	return env
}

type wlSpec struct {
	Name     string
	Race     bool
	Shards   int // 0 => 16
	TimeoutS int // per worker; 0 => 900
	Args     string
	Plain    bool // build without -race even in thorough
}

type spec struct {
	ID          string
	WLs         []wlSpec
	Level       string
	Rule        string
	Assumptions []string
	Exhaustive  bool
	Post        func(r *run)
	NeedsTlgen  bool // build /repo/internal/cmd/tlgen and pass its path to the workloads
	RaceE1      bool // escalate map-routine races to violations
	RaceE2      bool // escalate sender/sender races below sendPacket to violations
}

type viol struct {
	Prop, Sig, Detail, Case, Workload string
	Shard                             int
	Input                             json.RawMessage
	Count                             int64
	Stderr                            string
}

type run struct {
	sp       *spec
	tier     string
	seed     int64
	outDir   string
	counters map[string]int64
	keys     *core.KeySet
	samples  []json.RawMessage
	notes    map[string][]json.RawMessage
	viols    map[string]*viol // by prop|sig
	inconcl  []string
	logs     []string
	races    map[string]int
	mu       sync.Mutex
	extra    map[string]interface{}

	forceInconclusive bool
}

func (r *run) addViol(v *viol) {
	r.mu.Lock()
	defer r.mu.Unlock()
	k := v.Prop + "|" + v.Sig
	if old, ok := r.viols[k]; ok {
		old.Count++
		return
	}
	v.Count = 1
	r.viols[k] = v
}

func main() {
	exe, _ := os.Executable()
	root = os.Getenv("VERIF_ROOT")
	if root == "" {
		root = filepath.Dir(filepath.Dir(exe))
	}
	if len(os.Args) < 3 {
		fmt.Fprintln(os.Stderr, "usage: vcheck run <id> [--tier quick|thorough] | vcheck replay <path>")
		os.Exit(2)
	}
	switch os.Args[1] {
	case "run":
		id := os.Args[2]
		tier := "quick"
		for i := 3; i < len(os.Args); i++ {
			if os.Args[i] == "--tier" && i+1 < len(os.Args) {
				tier = os.Args[i+1]
			}
		}
		if t := os.Getenv("VERIF_TIER"); t == "quick" || t == "thorough" {
			tier = t
		}
		seed := int64(1)
		if s := os.Getenv("VERIF_SEED"); s != "" {
			if v, err := strconv.ParseInt(s, 10, 64); err == nil {
				seed = v
			}
		}
		sp := specs()[id]
		if sp == nil {
			fmt.Fprintln(os.Stderr, "unknown property", id)
			os.Exit(2)
		}
		os.Exit(runCheck(sp, tier, seed))
	case "replay":
		os.Exit(replay(os.Args[2]))
	default:
		os.Exit(2)
	}
}

var buildMu sync.Mutex

// coverMode: VERIF_COVER=1 (or the thorough tier) builds the workers with statement-coverage instrumentation
// of the /repo packages; the evidence then reports how much of each package the workloads actually executed.
var coverMode bool

func buildWorker(race bool) (string, error) {
	buildMu.Lock()
	defer buildMu.Unlock()
	name := "vworker"
	args := []string{"build", "-tags", "verif"}
	if race {
		name = "vworker-race"
		args = append(args, "-race")
	}
	if coverMode {
		name += "-cover"
		args = append(args, "-cover", "-covermode=atomic", "-coverpkg=github.com/xelaj/mtproto/...")
	}
	out := filepath.Join(root, "out", "bin", name)
	os.MkdirAll(filepath.Dir(out), 0o755)
	args = append(args, "-o", out, "./cmd/vworker")
	cmd := exec.Command("go", args...)
	cmd.Dir = filepath.Join(root, "harness")
	cmd.Env = goEnv()
	b, err := cmd.CombinedOutput()
	if err != nil {
		return "", fmt.Errorf("go %s: %v\n%s", strings.Join(args, " "), err, b)
	}
	return out, nil
}

func runCheck(sp *spec, tier string, seed int64) int {
	t0 := time.Now()
	r := &run{sp: sp, tier: tier, seed: seed, counters: map[string]int64{}, keys: core.NewKeySet(), viols: map[string]*viol{},
		notes: map[string][]json.RawMessage{}, races: map[string]int{}, extra: map[string]interface{}{}}
	r.outDir = filepath.Join(root, "out", "run", sp.ID)
	os.RemoveAll(r.outDir)
	os.MkdirAll(r.outDir, 0o755)
	os.MkdirAll(filepath.Join(root, "out", "replay"), 0o755)
	os.MkdirAll(filepath.Join(root, "evidence"), 0o755)

	coverMode = os.Getenv("VERIF_COVER") == "1"
	if coverMode {
		os.MkdirAll(filepath.Join(r.outDir, "cover"), 0o755)
	}
	if err := selfTest(); err != nil {
		fmt.Printf("INCONCLUSIVE property=%s reference self-test failed: %v\n", sp.ID, err)
		return 2
	}
	if only := os.Getenv("VERIF_ONLY_WL"); only != "" { // development aid: one workload of the property (never used by the registered commands)
		var keep []wlSpec
		for _, w := range sp.WLs {
			if w.Name == only {
				keep = append(keep, w)
			}
		}
		sp.WLs = keep
	}
	bins := map[bool]string{}
	for _, w := range sp.WLs {
		if _, ok := bins[w.Race]; !ok {
			b, err := buildWorker(w.Race)
			if err != nil {
				fmt.Printf("INCONCLUSIVE property=%s build failed (no verdict)\n%v\n", sp.ID, err)
				return 2
			}
			bins[w.Race] = b
		}
	}
	if sp.NeedsTlgen {
		out := filepath.Join(root, "out", "bin", "tlgen")
		cmd := exec.Command("go", "build", "-o", out, ".")
		cmd.Dir = "/repo/internal/cmd/tlgen"
		cmd.Env = goEnv()
		if b, err := cmd.CombinedOutput(); err != nil {
			fmt.Printf("INCONCLUSIVE property=%s build of tlgen failed (no verdict)\n%v\n%s\n", sp.ID, err, b)
			return 2
		}
		for i := range sp.WLs {
			sp.WLs[i].Args = "tlgen=" + out
		}
	}
	for _, w := range sp.WLs {
		r.runWorkload(w, bins[w.Race])
	}
	if sp.Post != nil {
		sp.Post(r)
	}
	if coverMode {
		r.coverageReport()
	}
	return r.finish(t0)
}

func (r *run) runWorkload(w wlSpec, bin string) {
	n := w.Shards
	if n == 0 {
		n = 16
	}
	var wg sync.WaitGroup
	for s := 0; s < n; s++ {
		wg.Add(1)
		go func(s int) {
			defer wg.Done()
			r.runShard(w, bin, s, n)
		}(s)
	}
	wg.Wait()
}

var reFatal = regexp.MustCompile(`(?m)^(panic: .*|fatal error: .*)$`)

func (r *run) runShard(w wlSpec, bin string, s, n int) {
	from := 0
	deaths := 0
	for attempt := 0; ; attempt++ {
		base := filepath.Join(r.outDir, fmt.Sprintf("%s.%d.%d", w.Name, s, attempt))
		logp := base + ".jsonl"
		to := w.TimeoutS
		if to == 0 {
			to = 900
		}
		if r.tier == "thorough" {
			to *= 6
		}
		args := []string{"-s", "QUIT", strconv.Itoa(to), bin, "-w", w.Name, "-seed", fmt.Sprint(r.seed), "-tier", r.tier,
			"-shard", fmt.Sprint(s), "-n", fmt.Sprint(n), "-from", fmt.Sprint(from), "-log", logp, "-args", w.Args}
		cmd := exec.Command("timeout", args...)
		cmd.Dir = r.outDir
		env := os.Environ()
		if w.Race {
			env = append(env, "GORACE=halt_on_error=0 exitcode=0 log_path="+base+".race")
		}
		env = append(env, "GOTRACEBACK=all", "VERIF_ROOT="+root)
		if coverMode {
			env = append(env, "GOCOVERDIR="+filepath.Join(r.outDir, "cover"))
		}
		cmd.Env = env
		so, _ := os.Create(base + ".out")
		se, _ := os.Create(base + ".err")
		cmd.Stdout, cmd.Stderr = so, se
		err := cmd.Run()
		so.Close()
		se.Close()
		finished := r.ingest(w, logp, s)
		r.ingestRaces(base)
		if finished && err == nil {
			return
		}
		// the worker died or timed out
		code := -1
		if cmd.ProcessState != nil {
			code = cmd.ProcessState.ExitCode()
		}
		stderr, _ := os.ReadFile(base + ".err")
		curIdx, curDesc := readCur(logp + ".cur")
		if code == 3 {
			r.mu.Lock()
			r.inconcl = append(r.inconcl, fmt.Sprintf("worker %s could not start: %s", w.Name, wkShort(string(stderr), 300)))
			r.mu.Unlock()
			return
		}
		if code == 124 || code == 137 || bytes.Contains(stderr, []byte("SIGQUIT: quit")) {
			r.mu.Lock()
			r.inconcl = append(r.inconcl, fmt.Sprintf("worker %s shard %d hit the wall-clock watchdog at case %d (%s)", w.Name, s, curIdx, wkShort(curDesc, 200)))
			r.mu.Unlock()
			// do not treat as violation; continue after the case
		} else {
			msg := "exit status " + strconv.Itoa(code)
			if m := reFatal.Find(stderr); m != nil {
				msg = string(m)
			}
			sig := "death/" + sanitize(msg) + "@" + stackSig(string(stderr))
			r.addViol(&viol{Prop: r.sp.ID, Sig: sig, Detail: "child process died: " + msg + " while running case " + fmt.Sprint(curIdx) + " " + wkShort(curDesc, 1500),
				Case: fmt.Sprint(curIdx), Workload: w.Name, Shard: s, Input: core.J(curDesc), Stderr: wkShort(string(stderr), 6000)})
		}
		deaths++
		if curIdx < 0 || deaths > 40 {
			r.mu.Lock()
			r.inconcl = append(r.inconcl, fmt.Sprintf("worker %s shard %d: gave up after %d deaths", w.Name, s, deaths))
			r.mu.Unlock()
			return
		}
		from = curIdx + 1
	}
}

func wkShort(s string, n int) string {
	if len(s) > n {
		return s[:n] + "…"
	}
	return s
}

var reNum = regexp.MustCompile(`0x[0-9a-fA-F]+|\b[0-9]{3,}\b`)

func sanitize(s string) string {
	s = reNum.ReplaceAllString(s, "N")
	if len(s) > 120 {
		s = s[:120]
	}
	return s
}

func stackSig(st string) string {
	// first goroutine block after the panic line: keep /repo frames
	var out []string
	for _, ln := range strings.Split(st, "\n") {
		ln = strings.TrimSpace(ln)
		if (strings.HasPrefix(ln, "github.com/xelaj/mtproto/") || strings.HasPrefix(ln, "github.com/xelaj/mtproto.")) && !strings.Contains(ln, "/zverif/") {
			if i := strings.LastIndex(ln, "("); i > 0 {
				ln = ln[:i]
			}
			ln = strings.TrimPrefix(strings.TrimPrefix(ln, "github.com/xelaj/mtproto/"), "github.com/xelaj/mtproto.")
			if len(out) > 0 && out[len(out)-1] == ln {
				continue
			}
			out = append(out, ln)
			if len(out) >= 3 {
				break
			}
		}
		if ln == "" && len(out) > 0 {
			break
		}
	}
	return strings.Join(out, "<")
}

func readCur(p string) (int, string) {
	b, err := os.ReadFile(p)
	if err != nil {
		return -1, ""
	}
	parts := strings.SplitN(string(b), "\n", 2)
	i, err := strconv.Atoi(strings.TrimSpace(parts[0]))
	if err != nil {
		return -1, ""
	}
	d := ""
	if len(parts) > 1 {
		d = strings.TrimRight(parts[1], "\n\x00")
	}
	return i, d
}

func (r *run) ingest(w wlSpec, logp string, shard int) bool {
	evs, err := core.ReadLog(logp)
	if err != nil {
		return false
	}
	r.mu.Lock()
	r.logs = append(r.logs, logp)
	r.mu.Unlock()
	finished := false
	for _, e := range evs {
		switch e.Ev {
		case "viol":
			r.addViol(&viol{Prop: e.Prop, Sig: e.Sig, Detail: e.Detail, Case: e.Case, Workload: w.Name, Shard: shard, Input: e.Input})
		case "stat":
			r.mu.Lock()
			if strings.HasPrefix(e.K, "max.") {
				if e.V > r.counters[e.K] {
					r.counters[e.K] = e.V
				}
			} else {
				r.counters[e.K] += e.V
			}
			r.mu.Unlock()
		case "violcount":
			r.mu.Lock()
			if v, ok := r.viols[e.K]; ok && e.V > v.Count {
				v.Count = e.V
			}
			r.mu.Unlock()
		case "sample":
			r.mu.Lock()
			if len(r.samples) < 6 {
				r.samples = append(r.samples, e.Data)
			}
			r.mu.Unlock()
		case "note":
			r.mu.Lock()
			if len(r.notes[e.K]) < 40 {
				r.notes[e.K] = append(r.notes[e.K], e.Data)
			}
			r.mu.Unlock()
		case "inconclusive":
			r.mu.Lock()
			r.inconcl = append(r.inconcl, e.Detail)
			r.mu.Unlock()
		case "finish":
			finished = true
		}
	}
	r.keys.MergeFile(logp + ".keys")
	return finished
}

var reAnyFrame = regexp.MustCompile(`^\s{2}(\S+)\(\)\s*$`)

func shortFrame(f string) string {
	f = strings.TrimPrefix(f, "github.com/xelaj/mtproto/")
	f = strings.TrimPrefix(f, "github.com/xelaj/mtproto.")
	return f
}

// ingestRaces parses race-detector logs. A report is keyed by the innermost non-runtime frame of each of
// its two accesses; reports whose two accesses both sit in harness code are harness defects and are
// printed as such (they must be fixed, they say nothing about /repo).
func (r *run) ingestRaces(base string) {
	files, _ := filepath.Glob(base + ".race.*")
	for _, f := range files {
		b, err := os.ReadFile(f)
		if err != nil {
			continue
		}
		for _, blk := range strings.Split(string(b), "==================") {
			if !strings.Contains(blk, "WARNING: DATA RACE") {
				continue
			}
			var tops []string
			var mapRoutine []bool
			for _, st := range strings.Split(blk, "\n\n") {
				lines := strings.Split(strings.TrimSpace(st), "\n")
				if len(lines) < 2 || len(tops) >= 2 {
					continue
				}
				hdr := lines[0]
				if strings.HasPrefix(hdr, "WARNING") && len(lines) > 1 {
					hdr = lines[1]
					lines = lines[1:]
				}
				if !(strings.Contains(hdr, " by goroutine") || strings.Contains(hdr, " by main goroutine")) || strings.HasPrefix(hdr, "Goroutine") {
					continue
				}
				top := ""
				isMap := false
				for _, ln := range lines[1:] {
					m := reAnyFrame.FindStringSubmatch(ln)
					if m == nil {
						continue
					}
					if strings.HasPrefix(m[1], "runtime.map") {
						isMap = true
					}
					if strings.HasPrefix(m[1], "runtime.") || strings.HasPrefix(m[1], "sync.") || strings.HasPrefix(m[1], "sync/atomic.") {
						continue
					}
					top = m[1]
					break
				}
				tops = append(tops, top)
				mapRoutine = append(mapRoutine, isMap)
			}
			harness := len(tops) > 0
			for _, t := range tops {
				if !strings.Contains(t, "/zverif/") {
					harness = false
				}
			}
			for i := range tops {
				tops[i] = shortFrame(tops[i])
			}
			sort.Strings(tops)
			key := strings.Join(tops, " <-> ")
			if harness {
				key = "HARNESS " + key
			}
			if len(mapRoutine) == 2 && mapRoutine[0] && mapRoutine[1] {
				key = "MAP " + key
			}
			r.mu.Lock()
			r.races[key]++
			r.mu.Unlock()
			// the two narrow escalations of DESIGN.md section 7
			if harness {
				continue
			}
			if len(mapRoutine) == 2 && mapRoutine[0] && mapRoutine[1] && r.sp.RaceE1 {
				r.addViol(&viol{Prop: r.sp.ID, Sig: "race/E1-concurrent-map-access/" + key, Workload: "race-detector",
					Detail: "the race detector saw two unsynchronised accesses inside the runtime's map routines reached from /repo code: concurrent map access is memory-unsafe and aborts the process when the runtime notices\n" + wkShort(blk, 3000)})
			}
			if r.sp.RaceE2 && strings.Count(blk, ".(*MTProto).sendPacket()") >= 2 && !strings.Contains(blk, ".(*MTProto).processResponse()") && !strings.Contains(blk, "startReadingResponses") {
				r.addViol(&viol{Prop: r.sp.ID, Sig: "race/E2-two-senders-inside-the-send-path/" + key, Workload: "race-detector",
					Detail: "two senders race inside what the send lock exists to serialise\n" + wkShort(blk, 3000)})
			}
		}
	}
}

func (r *run) finish(t0 time.Time) int {
	sp := r.sp
	kf, err := core.LoadFindings(filepath.Join(root, "known_findings.json"))
	if err != nil {
		kf = &core.FindingsFile{}
	}
	var keys []string
	for k := range r.viols {
		keys = append(keys, k)
	}
	sort.Strings(keys)
	nviol := 0
	nknown := 0
	var lines []string
	for _, k := range keys {
		v := r.viols[k]
		if f := kf.Lookup(v.Prop, v.Sig); f != nil {
			nknown++
			lines = append(lines, fmt.Sprintf("KNOWN-FINDING: property=%s %s [%s] (seen %d×)", v.Prop, f.What, v.Sig, v.Count))
			continue
		}
		nviol++
		rp := filepath.Join(root, "out", "replay", fmt.Sprintf("%s-%016x.json", v.Prop, core.Hash64(v.Prop, v.Sig, r.seed, r.tier)))
		rep := map[string]interface{}{"property": v.Prop, "check": sp.ID, "sig": v.Sig, "detail": v.Detail, "workload": v.Workload, "seed": r.seed,
			"tier": r.tier, "case": v.Case, "shard": v.Shard, "input": v.Input, "count": v.Count, "stderr": v.Stderr}
		b, _ := json.MarshalIndent(rep, "", " ")
		os.WriteFile(rp, b, 0o644)
		if nviol <= 25 {
			lines = append(lines, fmt.Sprintf("VIOLATION property=%s replay=%s", v.Prop, rp))
			lines = append(lines, fmt.Sprintf("  sig=%s (seen %d×) %s", v.Sig, v.Count, wkShort(v.Detail, 600)))
		}
	}
	if nviol > 25 {
		lines = append(lines, fmt.Sprintf("  … %d more distinct violation signatures (replay files written)", nviol-25))
	}
	var rk []string
	for k := range r.races {
		rk = append(rk, k)
	}
	sort.Strings(rk)
	for _, k := range rk {
		lines = append(lines, fmt.Sprintf("RACE-REPORT (informational) %d× %s", r.races[k], k))
	}

	ev := r.counters["evaluations"]
	if k := r.counters["oracle_evaluations_keyed"]; k > ev {
		ev = k // a case may comprise several keyed oracle evaluations (e.g. both directions of a codec)
	}
	dn := int64(r.keys.Len())
	cov := map[string]interface{}{
		"evaluations":         ev,
		"distinct_nontrivial": dn,
		"rule":                sp.Rule,
		"samples":             r.samples,
		"exhaustive":          sp.Exhaustive,
		"counters":            r.counters,
		"race_reports":        r.races,
		"known_findings_seen": nknown,
		"inconclusive_notes":  r.inconcl,
	}
	for k, v := range r.notes {
		cov["note."+k] = v
	}
	for k, v := range r.extra {
		cov[k] = v
	}
	if len(r.samples) == 0 {
		cov["samples"] = []string{"(none recorded)"}
	}
	e := core.Evidence{PropertyID: sp.ID, Tier: r.tier, Seed: r.seed, Level: sp.Level, Coverage: cov, Assumptions: sp.Assumptions,
		WallS: time.Since(t0).Seconds(), Violations: nviol}
	if err := e.Write(filepath.Join(root, "evidence", sp.ID+".json")); err != nil {
		fmt.Println("cannot write evidence:", err)
	}
	for _, l := range lines {
		fmt.Println(l)
	}
	fmt.Printf("SUMMARY property=%s tier=%s seed=%d evaluations=%d distinct_nontrivial=%d violations=%d known=%d inconclusive_notes=%d wall=%.1fs\n",
		sp.ID, r.tier, r.seed, ev, dn, nviol, nknown, len(r.inconcl), time.Since(t0).Seconds())
	for _, n := range r.inconcl {
		fmt.Println("  note:", n)
	}
	if nviol > 0 {
		return 1
	}
	if r.forceInconclusive {
		fmt.Printf("INCONCLUSIVE property=%s %s\n", sp.ID, strings.Join(r.inconcl, "; "))
		return 2
	}
	if ev == 0 || dn < 2 {
		fmt.Printf("INCONCLUSIVE property=%s the monitors observed nothing (evaluations=%d distinct=%d)\n", sp.ID, ev, dn)
		return 2
	}
	return 0
}

func replay(path string) int {
	b, err := os.ReadFile(path)
	if err != nil {
		fmt.Println(err)
		return 2
	}
	var rep struct {
		Property, Check, Sig, Workload, Tier, Case string
		Seed                                        int64
		Shard                                       int
	}
	if err := json.Unmarshal(b, &rep); err != nil {
		fmt.Println(err)
		return 2
	}
	sp := specs()[rep.Check]
	if sp == nil {
		fmt.Println("unknown check", rep.Check)
		return 2
	}
	var w *wlSpec
	for i := range sp.WLs {
		if sp.WLs[i].Name == rep.Workload {
			w = &sp.WLs[i]
		}
	}
	if w == nil {
		fmt.Println("workload not found", rep.Workload)
		return 2
	}
	bin, err := buildWorker(w.Race)
	if err != nil {
		fmt.Println("INCONCLUSIVE build failed\n", err)
		return 2
	}
	dir := filepath.Join(root, "out", "run", "replay")
	os.MkdirAll(dir, 0o755)
	logp := filepath.Join(dir, "replay.jsonl")
	cmd := exec.Command(bin, "-w", w.Name, "-seed", fmt.Sprint(rep.Seed), "-tier", rep.Tier, "-only", rep.Case, "-log", logp, "-args", w.Args)
	cmd.Dir = dir
	cmd.Stdout, cmd.Stderr = os.Stdout, os.Stderr
	err = cmd.Run()
	evs, _ := core.ReadLog(logp)
	hit := false
	for _, e := range evs {
		if e.Ev == "viol" {
			fmt.Printf("reproduced: property=%s sig=%s %s\n", e.Prop, e.Sig, e.Detail)
			if e.Sig == rep.Sig {
				hit = true
			}
		}
	}
	if err != nil {
		fmt.Println("worker ended with:", err)
		hit = true
	}
	if hit {
		fmt.Printf("VIOLATION property=%s replay=%s\n", rep.Property, path)
		return 1
	}
	fmt.Println("not reproduced")
	return 0
}

// coverageReport summarises GOCOVERDIR data: per-package percentages and, for the root package and the
// packages the properties are anchored in, the functions that were never entered.
func (r *run) coverageReport() {
	dir := filepath.Join(r.outDir, "cover")
	cmd := exec.Command("go", "tool", "covdata", "percent", "-i="+dir)
	cmd.Env = goEnv()
	out, err := cmd.CombinedOutput()
	if err != nil {
		r.inconcl = append(r.inconcl, "coverage: "+wkShort(string(out), 200))
		return
	}
	pk := map[string]string{}
	for _, ln := range strings.Split(string(out), "\n") {
		f := strings.Fields(ln)
		if len(f) >= 3 && strings.HasPrefix(f[0], "github.com/xelaj/mtproto") && !strings.Contains(f[0], "zverif") {
			pk[strings.TrimPrefix(f[0], "github.com/xelaj/")] = f[2]
		}
	}
	r.extra["statement_coverage_by_package"] = pk
	prof := filepath.Join(r.outDir, "cover.txt")
	cmd = exec.Command("go", "tool", "covdata", "textfmt", "-i="+dir, "-o="+prof)
	cmd.Env = goEnv()
	if b, err := cmd.CombinedOutput(); err != nil {
		r.inconcl = append(r.inconcl, "coverage textfmt: "+wkShort(string(b), 200))
		return
	}
	cmd = exec.Command("go", "tool", "cover", "-func="+prof)
	cmd.Dir = filepath.Join(root, "harness")
	cmd.Env = goEnv()
	fb, err := cmd.CombinedOutput()
	if err != nil {
		return
	}
	var never []string
	funcs := map[string]string{}
	for _, ln := range strings.Split(string(fb), "\n") {
		f := strings.Fields(ln)
		if len(f) != 3 || strings.Contains(f[0], "_gen.go") || strings.Contains(f[0], "zverif") {
			continue
		}
		name := strings.TrimPrefix(f[0], "github.com/xelaj/mtproto/") + " " + f[1]
		funcs[name] = f[2]
		if f[2] == "0.0%" {
			never = append(never, name)
		}
	}
	r.extra["functions_never_entered"] = never
	r.extra["function_coverage"] = funcs
}
