package main

func specs() map[string]*spec {
	m := map[string]*spec{}
	add := func(s *spec) { m[s.ID] = s }

	add(&spec{ID: "C20", Level: "exploration",
		WLs: []wlSpec{{Name: "c20", Shards: 8, TimeoutS: 300}},
		Rule: "full grid {5 schemes}x{15 hosts}x{port}x{paths of 0-3 segments over 17 atoms}x{trailing slash}x{4 suffixes}, then PRNG structured links and PRNG raw strings; each resolved 5 times; distinct = distinct (scheme,host,port,#segments,expected class,trailing,suffix,link prefix) among links in the strict zone (don't-care spellings are run for no-panic/determinism only and not counted)",
		Assumptions: []string{"ref/link.Expect states the demanded class from the components a link was assembled from (never by parsing it)", "Go runtime"},
	})
	return m
}
