package main

func specs() map[string]*spec {
	m := map[string]*spec{}
	add := func(s *spec) { m[s.ID] = s }

	add(&spec{ID: "C20", Level: "exploration",
		WLs: []wlSpec{{Name: "c20", Shards: 8, TimeoutS: 300}},
		Rule: "full grid {5 schemes}x{15 hosts}x{port}x{paths of 0-3 segments over 17 atoms}x{trailing slash}x{4 suffixes}, then PRNG structured links and PRNG raw strings; each resolved 5 times; distinct = distinct (scheme,host,port,#segments,expected class,trailing,suffix,link prefix) among links in the strict zone (don't-care spellings are run for no-panic/determinism only and not counted)",
		Assumptions: []string{"ref/link.Expect states the demanded class from the components a link was assembled from (never by parsing it)", "Go runtime"},
	})
	add(&spec{ID: "C05", Level: "exploration",
		WLs: []wlSpec{{Name: "c05", TimeoutS: 600}},
		Rule: "IGE block loop vs an independent implementation for every block count 1..N with key/IV shapes {random, all-zero, all-ff, 1-3 leading zero bytes}; refused lengths 0..47; message wrappers for every length 1..N; key-exchange wrappers for every payload length 0..N (every residue of (20+len) mod 16) with nonces of each leading-zero shape; distinct = distinct (kind, length, key/nonce shape)",
		Assumptions: []string{"ref/mtp IGE/KDF/temp-key implementation (self-tested against OpenSSL IGE vectors and the core.telegram.org temp-key sample)", "crypto/aes, crypto/sha1"},
	})
	add(&spec{ID: "C03", Level: "exploration",
		WLs: []wlSpec{{Name: "c03", TimeoutS: 600}, {Name: "c03e2e", Race: true, Shards: 8, TimeoutS: 900}},
		Rule: "every body length 0..N plus sampled lengths up to 65536, x key shapes {random, zero, ff, leading zeros} x boundary salts/session ids/msg_ids x ack/no-ack: library seals -> reference server opens (x=0); reference server seals (x=8) -> library opens; unencrypted envelope both ways; distinct = distinct (direction, body length, key shape, ack)",
		Assumptions: []string{"ref/mtp envelope + KDF (self-tested)", "crypto/aes, crypto/sha1"},
	})
	add(&spec{ID: "C04", Level: "fault_enumeration",
		WLs: []wlSpec{{Name: "c04", TimeoutS: 900}, {Name: "c04e2e", Race: true, Shards: 8, TimeoutS: 900}},
		Rule: "per valid reference-sealed packet: every single-bit flip, every truncation length, 3 re-keyings, 16 block-aligned garbage bodies, both client parities, and (attacker holds the key) declared lengths {-2^31,-1,2^24,2^31-16,2^31-1, len-33..len+33, total-33..total+33} x 3 choices of what msg_key covers; unencrypted: every truncation, 6 bad lengths, parities; distinct = distinct (mutation class, position/offset)",
		Assumptions: []string{"ref/mtp seals the packets and states what a key holder sealed", "a single-bit flip being accepted by chance has probability 2^-128 and is ignored"},
	})
	add(&spec{ID: "C08", Level: "exploration",
		WLs: []wlSpec{{Name: "c08", TimeoutS: 600}, {Name: "c08tcp", TimeoutS: 600, Shards: 8}},
		Rule: "writing: every length {0,4,..,520,1020,1024,4096,65536,2^20} in both modes, wire bytes vs reference framing; reading: EVERY composition of every short reference-framed stream (<=12 bytes quick, <=15 thorough) through an exact-count reader (the contract the framing modes are written against; tcpConn's own implementation of it is exercised on the loopback path), plus PRNG segmentations/1-byte-at-a-time/whole for sequences of 1-6 longer messages, then EOF; loopback TCP through transport.NewTransport with a peer writing PRNG segments (TCP_NODELAY, paced) of plain-envelope messages and 4-byte signed error codes, then orderly close; distinct = distinct (mode, shape, composition or segmentation class)",
		Assumptions: []string{"ref/mtp framing", "kernel loopback TCP; the actual split seen by the reader on the TCP path is decided by the kernel (deterministic path covers all compositions)"},
	})
	add(&spec{ID: "C12", Level: "exploration",
		WLs: []wlSpec{{Name: "c12", TimeoutS: 600}, {Name: "c12e2e", Race: true, Shards: 4, TimeoutS: 600}},
		Rule: "PRNG sessions (key 0..512 bytes, hash 0..20, boundary salts, hostnames with non-ASCII/JSON metacharacters) stored and loaded through same and fresh loaders over absolute/relative/dot-relative/bare paths; histories of 1-8 store/load ops over 1-3 loaders against a one-register model, each natively and with one-second mtime emulation; every strict prefix of stored files as crash points; distinct = distinct (path kind, key/hash length, salt, host) / (history, coarse) / (file, cut)",
		Assumptions: []string{"local filesystem; os.Chtimes truncation to one second emulates coarse-mtime filesystems", "hostnames are valid UTF-8"},
	})
	add(&spec{ID: "C17", Level: "exploration",
		WLs: []wlSpec{{Name: "c17", Shards: 8, TimeoutS: 300}, {Name: "c17e2e", Race: true, Shards: 8, TimeoutS: 900}},
		Rule: "15 table rows x 23 parameter spellings + edge forms, every catalogued name (read from /repo/errors.go with go/parser at run time), PRNG texts with % verbs and overlapping prefixes, x codes; oracle zones strict/plain/don't-care (ref/rpcerr); distinct = distinct (zone, text)",
		Assumptions: []string{"ref/rpcerr restates the 15-row table of the property", "the catalogue in errors.go is the documentation of descriptions"},
	})
	add(&spec{ID: "C18", Level: "exploration",
		WLs: []wlSpec{{Name: "c18", TimeoutS: 900}},
		Rule: "passwords (Unicode, NUL, long) x salt lengths {0,1,8,16,32,64} x g in 2..7 x server secrets, corners B/A/S with a leading zero byte (searched at run time; client secret scripted through crypto/rand.Reader), padded and unpadded B; right password must verify on an independent SRP server holding only v, a neighbouring wrong password must not; empty password; B in {0,p,p+1,long,empty}; distinct = distinct (password, salt lengths, g, corner, len B)",
		Assumptions: []string{"ref/srpsrv implements core.telegram.org/api/srp server side with hand-written PBKDF2-HMAC-SHA512", "2048-bit MTProto DH prime as SRP group"},
	})
	add(&spec{ID: "C02", Level: "exploration", Exhaustive: false,
		WLs: []wlSpec{{Name: "c02", TimeoutS: 900}},
		Rule: "for EVERY definition of schemes/api_latest.tl and the wire-used definitions of mtproto.tl: schema-directed values (presence patterns: none, all, each single group; all 2^g patterns for g<=10 in thorough; PRNG ones; boundary string lengths on the first string field; nesting depth 2-4) are built positionally into the registered Go type, serialised by the library and compared byte-for-byte with the independent schema serialiser; the reference bytes are decoded by the library and matched against the value; 2^24-1 / 2^24 / 2^24+1 byte strings; distinct = distinct (definition, presence mask, encoded length). The definition dimension is enumerated completely; the value dimension is sampled",
		Assumptions: []string{"ref/tlschema (parser self-validated: canonical-line CRC-32 equals the written id on every line)", "bridge maps i-th non-flags parameter to i-th struct field; id->type from the registry export (H1)"},
	})
	add(&spec{ID: "C13", Level: "exploration", Exhaustive: true,
		WLs: []wlSpec{{Name: "c13static", Shards: 4, TimeoutS: 300}, {Name: "c13dyn", Race: true, Shards: 1, TimeoutS: 1200}},
		Rule: "finite space enumerated completely: every definition of schemes/api_latest.tl and every id-bearing definition of mtproto.tl (wire-used ones strictly) compared with its registered Go type by reflection (id = CRC() = CRC-32 of the canonical line; field kinds positionally; tag bit; encoded_in_bitflags; FlagIndex), every registered id looked up in the schemas, the hand-written wrappers found by a source scan; dynamic half: EVERY generated method of *telegram.Client (list from a go/parser scan of methods_gen.go) is invoked by reflection with type-directed arguments against the reference server, which decodes the request with the schema decoder (the constructor id identifies the schema function), compares arguments positionally, answers with a schema-generated value of the declared result type and the returned value is matched; each function id must come from exactly one method; distinct = distinct definition / registered id / wrapper / (method, repetition)",
		Assumptions: []string{"ref/tlschema parser (self-validated by CRC on every line)", "registry export H1"},
	})
	add(&spec{ID: "C01", Level: "exploration",
		WLs: []wlSpec{{Name: "c01", TimeoutS: 900}},
		Rule: "for EVERY registered type (and the hand-written wrappers): type-directed values built by reflection (presence patterns none/all/each single group, all 2^g for g<=10 in thorough; members of a present group may be zero; boundary numbers, string lengths {0..9,251..258,65535,65536} cycled, 0-3 leading zero bytes in int128/256, every enum member, implementers of the first interface field walked in turn, nesting depth 1-4) -> Marshal twice (identical bytes) -> DecodeUnknownObject and Decode into the named type -> equality modulo nil/empty slice, big-int value, double bits; distinct = distinct (type, presence mask, value shape) with >=1 conditional pattern or a non-flat shape",
		Assumptions: []string{"value domain = TL values: in a present group the `true` members are set, object members non-nil", "registry export H1", "decode-only types (gzip_packed, msg_copy, msg_container) have no Marshal direction in the library and are exercised from reference bytes in C02/C15"},
	})
	add(&spec{ID: "C15", Level: "exploration",
		WLs: []wlSpec{{Name: "c15", TimeoutS: 1200}},
		Rule: "seeds = valid encodings of EVERY registered type (type-directed generator) plus reference-built rpc_result/container/gzip wrappers; mutations = every prefix truncation (word boundaries and odd cuts), each of the first 28 words (and sampled later ones) replaced by 20 classes (registered struct id, enum id, vector/Bool/null/gzip/container/rpc_result ids, 0, 1, -1, 2^31-1, 2^31, 0xfe string headers, huge counts), vector-at-root under every hint kind with huge counts, splices, uniform random bytes; entry points DecodeUnknownObject, Decode into the named type, DecodeUnknownObject with hints; monitors: recover(), child death, allocation delta (runtime/metrics) <= 1 MiB + 4096*len(input) unless the input contains the gzip id, thread CPU <= 5 s per call, in-process no-termination monitor (60 s CPU on one call); distinct = distinct (seed type, word position, replacement class)",
		Post: func(r *run) {
			// calibration: if legitimate decoding comes within 4x of the allocation bound the rule is not trustworthy
			if v := r.counters["max.valid_alloc_permille_of_bound"]; v > 250 {
				r.inconcl = append(r.inconcl, "calibration: a valid encoding allocated more than a quarter of the bound; the allocation rule needs re-calibration")
				r.forceInconclusive = true
			}
		},
		Assumptions: []string{"runtime/metrics /gc/heap/allocs:bytes as the allocation measure (lazy per-span flushing of tens of KiB is far below the 1 MiB constant)", "getrusage(RUSAGE_THREAD) with the workload goroutine locked to its OS thread"},
	})
	add(&spec{ID: "C06", Level: "exploration",
		WLs: []wlSpec{{Name: "c06", Race: true, TimeoutS: 900}},
		Rule: "real client vs the conformant reference server over loopback TCP, one fresh key exchange per case: each of {nonce, server_nonce, new_nonce, new_nonce_hash1, RSA ciphertext, g_a, g_b, g^ab} forced to begin with 1 (quick) or 1-2 (thorough) zero bytes (server values chosen, client values scripted through the interposed crypto/rand.Reader, derived values searched), PRNG exchanges, 8 pq shapes; oracle: CreateConnection returns nil, both sides hold the same 256-byte key and salt, exactly 3 plaintext frames, the first encrypted request is answered with its stamp, the session file equals (key, id, salt, address); observed (not intended) leading-zero values are counted; distinct = distinct (plan, nonce) and distinct observed corners",
		Assumptions: []string{"refserver handshake written from core.telegram.org/mtproto/auth_key", "client draws are forced only if the tree draws them from crypto/rand (otherwise reported as not forced)", "race detector build; reports informational"},
	})
	add(&spec{ID: "C07", Level: "fault_enumeration",
		WLs: []wlSpec{{Name: "c07", Race: true, TimeoutS: 900}},
		Rule: "one fault per otherwise conformant exchange: the 7 nonce/server_nonce comparison sites x {bit flips (4 positions quick, all 128 thorough), fresh random, the other nonce, zero}; fingerprint lists {empty, one wrong, many wrong, off by one, byte-swapped}; encrypted answer {flip in first/middle/last block, hash altered, content altered with stale hash, length not a multiple of 16, truncated, empty, 16/32 extra padding bytes}; new_nonce_hash1 {bit flips, other digests, zero, random}; alternative constructors; oracle: CreateConnection returns a non-nil error (no panic, no stall), no session file, zero encrypted frames at the server incl. a drain; distinct = distinct (site, corruption, position)",
		Assumptions: []string{"refserver (conformant apart from the injected fault)", "stall = identical goroutine dumps with every client goroutine parked; watchdog firing without that signature is inconclusive"},
	})
	add(&spec{ID: "C09", Level: "exploration", RaceE1: true,
		WLs: []wlSpec{{Name: "c09", Race: true, TimeoutS: 1200}, {Name: "c09table", Shards: 4, TimeoutS: 600}},
		Rule: "scenarios = 1-48 goroutines x 1-5 requests of five result kinds (object, Bool, Vector<int>, Vector<long>, Vector<object>) through MakeRequest/MakeRequestWithHintToDecoder or the generated telegram.Client methods, against a resumed session; the reference server holds answers and releases them shuffled, grouped into plain messages/containers, results and/or whole messages gzip-packed, a scripted fraction as rpc_error with a per-request code; PRNG delays at the send/receive hook points; every request carries a unique uid and the answer a stamp f(uid); oracle: every call returns exactly once with its own stamp (or its own rpc_error), no duplicates, no caller panic, child alive, no stall; distinct = distinct hook-order signatures + distinct answer-group shapes",
		Assumptions: []string{"refserver", "hook points H3 only add delays at existing suspension points", "race reports informational except escalation E1 (both accesses inside runtime map routines)"},
	})
	add(&spec{ID: "C10", Level: "exploration", RaceE1: true, RaceE2: true,
		WLs: []wlSpec{{Name: "c10", Race: true, TimeoutS: 1200}},
		Rule: "monitor over the reference server's log of decrypted client messages in arrival order (msg_id multiple of 4, strictly increasing per session, seconds part from the clock; seq_no odd iff content-related, never decreasing) plus, at quiescence, every content-related server message named in a msgs_ack; workloads: (A) the C09 scenario family, (B) bursts of 2-32 goroutines held right after obtaining their msg_id and released newest-first (bounded-patience gate), (C) injected clocks: frozen for 6 reads, stepping back 3 s, 15.6 ms granularity, (D) server histories mixing update objects, new_session_created, pong, msgs_ack, content-related or not, plain or in containers, followed by a probe; distinct = distinct hook-order signatures / burst sizes / clock modes / histories",
		Assumptions: []string{"refserver", "clock override H4", "gate has bounded patience: steering can fail (fewer interleavings) but cannot wedge the client or create an impossible schedule"},
	})
	add(&spec{ID: "C16", Level: "fault_enumeration", RaceE1: true,
		WLs: []wlSpec{{Name: "c16", Race: true, TimeoutS: 1200}},
		Rule: "catalogue of ~70 server-to-client items (every MTProto service constructor incl. bad_msg_notification with each code, unsolicited handshake objects, API objects/enum values/Bool/vector/null as updates, rpc_result for unknown and already answered ids (plain, gzip), bare rpc_error, unregistered ids, truncated/empty bodies, empty/negative/nested containers, gzip of garbage, transport error codes, orderly close) sent singly and in PRNG sequences of 1-8 after a first answered request, with and without a custom handler; then a probe RPC of a random result kind; oracle: child alive, probe returns its own stamp, after a close the reconnect.done hook fires, the probe completes on a new connection and no plaintext frame was sent; distinct = distinct (sequence, handler variant)",
		Assumptions: []string{"refserver", "the warning channel is drained by the harness", "probe after a close is issued only after the reconnect.done hook"},
	})
	add(&spec{ID: "C11", Level: "exploration", RaceE1: true,
		WLs: []wlSpec{{Name: "c11", Race: true, TimeoutS: 1500}},
		Rule: "scripted histories: k in 1..3 rotation steps, each with A requests accepted before the rotation and answered after it and R requests issued after it (rejected with bad_server_salt and re-sent), all (A,R) with A+R<=3 (quick) / <=5 (thorough), resumed and freshly keyed sessions, rotation by rejection or announced by new_session_created, late answers released before or after the rejected ones; plus PRNG histories; PRNG delays at salt.adopt/salt.notify/call.retry/...; the server rejects ANY message under a wrong salt (acknowledgements too); oracle: every call returns its own stamp, arrivals(uid) = 1 + rejections(uid) (an accepted request is never sent twice), the session store holds the rotated salt after each step, a probe completes, no stall (goroutine-dump signature); distinct = distinct (history, delay map)",
		Assumptions: []string{"refserver", "stall verdict only from identical goroutine dumps with every client goroutine parked; otherwise inconclusive"},
	})
	add(&spec{ID: "C19", Level: "exploration",
		WLs: []wlSpec{{Name: "c19", Race: true, Shards: 8, TimeoutS: 900}},
		Rule: "runtime provenance (taint) monitor: crypto/rand.Reader is interposed in the child and every chunk served to a /repo caller is recorded with the caller's frames; sinks are observed outside the client (nonce on the wire, new_nonce after the server's RSA decryption, g_b on the wire, SRP A in the answer); oracle: nonce/new_nonce equal a served window, g_b and A are g^x for a candidate derivation x of a served chunk; plus differential pairs: identical math/rand seeding after client creation must not reproduce nonces or g_b; distinct = distinct exchanges / SRP answers / pairs. Reach is reported as draws per calling function; a path not executed is not judged",
		Assumptions: []string{"the quantifier 'all paths' exceeds what a run can show: only the executed paths from CreateConnection / GetInputCheckPassword to each sink are judged (they are straight-line in this code base); see DESIGN 6/C19", "refserver decrypts new_nonce with the test RSA key"},
	})
	add(&spec{ID: "C14", Level: "exploration", NeedsTlgen: true,
		WLs: []wlSpec{{Name: "c14", Shards: 4, TimeoutS: 1800}},
		Rule: "PRNG schemas inside the documented subset (enums, single/multi-constructor types, constructor/type name clashes, namespaces, every primitive, flags:# leading or not, bits {0,1,2,3,7,15,30,31}, shared bits, true flags, vectors of primitives and types, functions returning objects/Bool/vectors, @type/@enum/@constructor/@method/@param annotations; a quarter also with plain comments) and every schema under schemes/: (a) tlparser.ParseSchema compared with an independent parse; (b) the real tlgen binary (built from the working tree) run 3 (quick) / 10 (thorough) times per schema, output files byte-identical; (c) outputs compiled together with a stub Client and a reflection dumper and audited like C13 (id, field kinds, flag bits, FlagIndex, nothing extra registered, one method per function); distinct = distinct schema texts + distinct (schema, reflected summary)",
		Assumptions: []string{"ref/tlschema as the independent reading of generated schema text", "go toolchain for compiling the generated package", "the documented subset is taken from the parser's own fixtures and comments (DESIGN 6/C14)"},
	})
	return m
}
