package main

import "github.com/xelaj/mtproto/zverif/ref/mtp"

// selfTest runs the reference oracles' known-answer tests; a broken oracle must not produce verdicts.
func selfTest() error {
	if err := mtp.SelfTest(); err != nil {
		return err
	}
	return nil
}
