package main

// selfTest runs the reference oracles' known-answer tests; a broken oracle must not produce verdicts.
func selfTest() error {
	return nil
}
