// Package wk is the worker-side kit: case selection by shard, event emission, counters,
// last-case file (so that a death is attributable), panic capture.
package wk

import (
	"encoding/json"
	"fmt"
	"math/rand"
	"os"
	"runtime/debug"
	"sort"
	"strings"
	"sync"

	"github.com/xelaj/mtproto/zverif/core"
)

type Ctx struct {
	Log      *core.Log
	Workload string
	Seed     int64
	Tier     string
	Shard    int
	NShards  int
	Only     int // -1: all
	From     int
	LogPath  string
	Args     map[string]string

	Keys *core.KeySet

	mu       sync.Mutex
	counters map[string]int64
	samples  []json.RawMessage
	nviol    map[string]int
	cur      *os.File
}

type Workload func(c *Ctx)

var registry = map[string]Workload{}

func Register(name string, w Workload) { registry[name] = w }
func Lookup(name string) Workload      { return registry[name] }
func Names() []string {
	var n []string
	for k := range registry {
		n = append(n, k)
	}
	sort.Strings(n)
	return n
}

func NewCtx(workload, logPath string, seed int64, tier string, shard, n, only, from int) (*Ctx, error) {
	l, err := core.OpenLog(logPath)
	if err != nil {
		return nil, err
	}
	cur, err := os.OpenFile(logPath+".cur", os.O_CREATE|os.O_WRONLY|os.O_TRUNC, 0o644)
	if err != nil {
		return nil, err
	}
	return &Ctx{Log: l, Workload: workload, Seed: seed, Tier: tier, Shard: shard, NShards: n, Only: only, From: from,
		LogPath: logPath, Keys: core.NewKeySet(), counters: map[string]int64{}, nviol: map[string]int{}, cur: cur,
		Args: map[string]string{}}, nil
}

func (c *Ctx) Quick() bool { return c.Tier != "thorough" }

// Pick returns q in quick tier and t in thorough tier.
func (c *Ctx) Pick(q, t int) int {
	if c.Quick() {
		return q
	}
	return t
}

// Mine says whether case index i belongs to this worker invocation.
func (c *Ctx) Mine(i int) bool {
	if c.Only >= 0 {
		return i == c.Only
	}
	return i >= c.From && i%c.NShards == c.Shard
}

func (c *Ctx) Rand(i int) *rand.Rand { return core.CaseRand(c.Seed, c.Workload, i) }

// Begin records the case about to run in the .cur file (cheap, overwritten) so that a process
// death is attributed to it. desc should be short.
func (c *Ctx) Begin(i int, desc string) {
	if len(desc) > 60000 {
		desc = desc[:60000]
	}
	b := []byte(fmt.Sprintf("%d\n%s\n", i, desc))
	c.mu.Lock()
	c.cur.Truncate(0)
	c.cur.WriteAt(b, 0)
	c.mu.Unlock()
	c.Count("evaluations", 1)
}

// Viol records a refutation. Repeated signatures are counted but only the first few are logged in full.
func (c *Ctx) Viol(prop string, i int, sig, detail string, input interface{}) {
	c.mu.Lock()
	c.nviol[prop+"|"+sig]++
	n := c.nviol[prop+"|"+sig]
	c.mu.Unlock()
	if n > 3 {
		return
	}
	if len(detail) > 4000 {
		detail = detail[:4000] + "…"
	}
	c.Log.Emit(core.Event{Ev: "viol", Case: fmt.Sprint(i), Prop: prop, Sig: sig, Detail: detail, Input: core.J(input)})
}

func (c *Ctx) Count(k string, d int64) {
	c.mu.Lock()
	c.counters[k] += d
	c.mu.Unlock()
}

func (c *Ctx) Max(k string, v int64) {
	c.mu.Lock()
	if v > c.counters[k] {
		c.counters[k] = v
	}
	c.mu.Unlock()
}

// Distinct records the key of one evaluated (sub)case; the number of calls is reported too, so that
// "evaluations" never undercounts what "distinct_nontrivial" was drawn from.
func (c *Ctx) Distinct(parts ...interface{}) {
	c.Keys.Add(parts...)
	c.Count("oracle_evaluations_keyed", 1)
}

func (c *Ctx) Sample(v interface{}) {
	c.mu.Lock()
	defer c.mu.Unlock()
	if len(c.samples) < 4 {
		c.samples = append(c.samples, core.J(v))
	}
}

func (c *Ctx) Note(k string, v interface{}) {
	c.Log.Emit(core.Event{Ev: "note", K: k, Data: core.J(v)})
}

func (c *Ctx) Finish() {
	c.mu.Lock()
	for _, k := range core.SortedKeys(c.counters) {
		c.Log.Emit(core.Event{Ev: "stat", K: k, V: c.counters[k]})
	}
	for k, n := range c.nviol {
		c.Log.Emit(core.Event{Ev: "violcount", K: k, V: int64(n)})
	}
	for _, s := range c.samples {
		c.Log.Emit(core.Event{Ev: "sample", Data: s})
	}
	c.mu.Unlock()
	c.Keys.WriteFile(c.LogPath + ".keys")
	c.Log.Emit(core.Event{Ev: "finish"})
	c.Log.Close()
}

// Guard runs f and converts a panic into (panicked=true, first line + trimmed stack signature).
func Guard(f func()) (panicked bool, msg string, stack string) {
	defer func() {
		if r := recover(); r != nil {
			panicked = true
			msg = fmt.Sprint(r)
			stack = StackSig(string(debug.Stack()))
		}
	}()
	f()
	return
}

// StackSig keeps the /repo frames of a stack (function names only), for stable signatures.
func StackSig(st string) string {
	var out []string
	for _, ln := range strings.Split(st, "\n") {
		ln = strings.TrimSpace(ln)
		if (strings.HasPrefix(ln, "github.com/xelaj/mtproto/") || strings.HasPrefix(ln, "github.com/xelaj/mtproto.")) && !strings.Contains(ln, "/zverif/") {
			if i := strings.LastIndex(ln, "("); i > 0 {
				ln = ln[:i]
			}
			ln = strings.TrimPrefix(strings.TrimPrefix(ln, "github.com/xelaj/mtproto/"), "github.com/xelaj/mtproto.")
			out = append(out, ln)
			if len(out) >= 4 {
				break
			}
		}
	}
	return strings.Join(out, "<")
}

func Short(s string, n int) string {
	if len(s) > n {
		return s[:n] + "…"
	}
	return s
}
