// Package core holds what the parent (vcheck) and the child (vworker) share and that does not
// depend on /repo: event log, case PRNG, evidence and known-finding files.
package core

import (
	"bufio"
	"encoding/binary"
	"encoding/json"
	"fmt"
	"hash/fnv"
	"math/rand"
	"os"
	"sort"
	"sync"
	"sync/atomic"
)

// ---------------------------------------------------------------------------------------------
// Events

// Event is one JSONL record. Fields are optional except Ev.
type Event struct {
	N      int64           `json:"n"`
	Ev     string          `json:"ev"`
	Case   string          `json:"case,omitempty"`
	Prop   string          `json:"prop,omitempty"`
	Sig    string          `json:"sig,omitempty"`
	Detail string          `json:"detail,omitempty"`
	Input  json.RawMessage `json:"input,omitempty"`
	Data   json.RawMessage `json:"data,omitempty"`
	K      string          `json:"k,omitempty"`
	V      int64           `json:"v,omitempty"`
}

// Log is an append-only JSONL writer; one write(2) per event so that a dying process loses nothing.
type Log struct {
	mu sync.Mutex
	f  *os.File
	n  int64
}

func OpenLog(path string) (*Log, error) {
	f, err := os.OpenFile(path, os.O_CREATE|os.O_WRONLY|os.O_APPEND|os.O_TRUNC, 0o644)
	if err != nil {
		return nil, err
	}
	return &Log{f: f}, nil
}

func (l *Log) Emit(e Event) {
	e.N = atomic.AddInt64(&l.n, 1)
	b, err := json.Marshal(e)
	if err != nil {
		b = []byte(fmt.Sprintf(`{"ev":"logerr","detail":%q}`, err.Error()))
	}
	b = append(b, '\n')
	l.mu.Lock()
	l.f.Write(b)
	l.mu.Unlock()
}

func (l *Log) Close() { l.f.Close() }

func J(v interface{}) json.RawMessage {
	b, err := json.Marshal(v)
	if err != nil {
		b, _ = json.Marshal(fmt.Sprintf("unmarshalable: %v", err))
	}
	return b
}

// ReadLog parses a JSONL file; a torn last line is ignored.
func ReadLog(path string) ([]Event, error) {
	f, err := os.Open(path)
	if err != nil {
		return nil, err
	}
	defer f.Close()
	var out []Event
	sc := bufio.NewScanner(f)
	sc.Buffer(make([]byte, 1<<20), 1<<28)
	for sc.Scan() {
		var e Event
		if json.Unmarshal(sc.Bytes(), &e) == nil && e.Ev != "" {
			out = append(out, e)
		}
	}
	return out, nil
}

// ---------------------------------------------------------------------------------------------
// PRNG per case: a case is regenerable from (seed, workload, index) alone.

func Hash64(parts ...interface{}) uint64 {
	h := fnv.New64a()
	for _, p := range parts {
		fmt.Fprintf(h, "%v|", p)
	}
	return h.Sum64()
}

func CaseRand(seed int64, workload string, index int) *rand.Rand {
	return rand.New(rand.NewSource(int64(Hash64(seed, workload, index))))
}

// ---------------------------------------------------------------------------------------------
// Distinct-key sets merged across shards.

type KeySet struct {
	mu sync.Mutex
	m  map[uint64]struct{}
}

func NewKeySet() *KeySet { return &KeySet{m: map[uint64]struct{}{}} }

func (k *KeySet) Add(parts ...interface{}) {
	h := Hash64(parts...)
	k.mu.Lock()
	k.m[h] = struct{}{}
	k.mu.Unlock()
}
func (k *KeySet) AddHash(h uint64) { k.mu.Lock(); k.m[h] = struct{}{}; k.mu.Unlock() }
func (k *KeySet) Len() int        { k.mu.Lock(); defer k.mu.Unlock(); return len(k.m) }

func (k *KeySet) WriteFile(path string) error {
	k.mu.Lock()
	defer k.mu.Unlock()
	buf := make([]byte, 0, 8*len(k.m))
	for h := range k.m {
		buf = binary.LittleEndian.AppendUint64(buf, h)
	}
	return os.WriteFile(path, buf, 0o644)
}

func (k *KeySet) MergeFile(path string) error {
	b, err := os.ReadFile(path)
	if err != nil {
		return err
	}
	k.mu.Lock()
	defer k.mu.Unlock()
	for i := 0; i+8 <= len(b); i += 8 {
		k.m[binary.LittleEndian.Uint64(b[i:])] = struct{}{}
	}
	return nil
}

// ---------------------------------------------------------------------------------------------
// Evidence (schema /root/.vp/EVIDENCE.schema.json)

type Evidence struct {
	PropertyID  string                 `json:"property_id"`
	Tier        string                 `json:"tier"`
	Seed        int64                  `json:"seed"`
	Level       string                 `json:"level"`
	Coverage    map[string]interface{} `json:"coverage"`
	Assumptions []string               `json:"assumptions"`
	WallS       float64                `json:"wall_s"`
	Violations  int                    `json:"violations"`
}

func (e *Evidence) Write(path string) error {
	b, err := json.MarshalIndent(e, "", " ")
	if err != nil {
		return err
	}
	return os.WriteFile(path, append(b, '\n'), 0o644)
}

// ---------------------------------------------------------------------------------------------
// Known findings (committed, read-only at run time)

type Finding struct {
	Property string `json:"property"`
	Sig      string `json:"sig"`
	What     string `json:"what"`
}

type FindingsFile struct {
	Findings []Finding `json:"findings"`
	Fixed    []string  `json:"fixed"`
}

func LoadFindings(path string) (*FindingsFile, error) {
	b, err := os.ReadFile(path)
	if err != nil {
		return nil, err
	}
	var f FindingsFile
	if err := json.Unmarshal(b, &f); err != nil {
		return nil, err
	}
	return &f, nil
}

func (f *FindingsFile) Lookup(prop, sig string) *Finding {
	for i := range f.Findings {
		if f.Findings[i].Property == prop && f.Findings[i].Sig == sig {
			return &f.Findings[i]
		}
	}
	return nil
}

// SortedKeys helper
func SortedKeys(m map[string]int64) []string {
	ks := make([]string, 0, len(m))
	for k := range m {
		ks = append(ks, k)
	}
	sort.Strings(ks)
	return ks
}
