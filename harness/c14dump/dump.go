// Package c14dump is linked together with freshly generated packages (one per schema) into a throw-away
// binary. It reflects over what those packages registered and declared and compares it with an
// independent parse of the schema text. Output: one JSON line per finding.
package c14dump

import (
	"encoding/json"
	"fmt"
	"os"
	"reflect"
	"strings"

	"github.com/xelaj/mtproto/internal/encoding/tl"
	"github.com/xelaj/mtproto/zverif/audit"
	ts "github.com/xelaj/mtproto/zverif/ref/tlschema"
)

type Finding struct {
	Schema string `json:"schema"`
	Kind   string `json:"kind"`
	Name   string `json:"name"`
	Detail string `json:"detail"`
}

// Excluded: definitions the tool documents as skipped (built-ins and the generic wrappers).
var Excluded = map[string]bool{"true": true, "boolFalse": true, "boolTrue": true, "vector": true,
	"invokeAfterMsg": true, "invokeAfterMsgs": true, "initConnection": true, "invokeWithLayer": true,
	"invokeWithoutUpdates": true, "invokeWithMessagesRange": true, "invokeWithTakeout": true}

// Run: args are "tag=path/to/schema.tl"; clients maps tag -> reflect.Type of that package's *Client.
func Run(args []string, clients map[string]reflect.Type) {
	objs, _ := tl.VerifRegistry()
	enc := json.NewEncoder(os.Stdout)
	for _, a := range args {
		i := strings.Index(a, "=")
		tag, path := a[:i], a[i+1:]
		text, err := os.ReadFile(path)
		if err != nil {
			enc.Encode(Finding{tag, "harness", "", err.Error()})
			continue
		}
		s, err := ts.Parse(string(text))
		if err != nil {
			enc.Encode(Finding{tag, "harness", "", err.Error()})
			continue
		}
		reg := audit.Registry{}
		for id, t := range objs {
			pp := t.PkgPath()
			if t.Kind() == reflect.Ptr {
				pp = t.Elem().PkgPath()
			}
			if strings.HasSuffix(pp, "/"+tag+"/telegram") {
				reg[id] = t
			}
		}
		seen := map[uint32]bool{}
		ndefs := 0
		for _, d := range s.Defs {
			if !d.HasID || Excluded[d.Name] {
				continue
			}
			ndefs++
			seen[d.ID] = true
			gt, ok := reg[d.ID]
			if !ok {
				enc.Encode(Finding{tag, "unregistered", d.Name, fmt.Sprintf("%s#%08x declared by the schema has no registered Go type in the generated package", d.Name, d.ID)})
				continue
			}
			d := d
			audit.Compare(d, s, gt, reg, false, func(kind, detail string) {
				enc.Encode(Finding{tag, kind, d.Name, detail})
			})
		}
		for id, t := range reg {
			if !seen[id] {
				enc.Encode(Finding{tag, "extra-registered", t.String(), fmt.Sprintf("%v registered under %#08x which the schema does not define", t, id)})
			}
		}
		nm := 0
		if ct, ok := clients[tag]; ok {
			for i := 0; i < ct.NumMethod(); i++ {
				if n := ct.Method(i).Name; n != "MakeRequest" && n != "MakeRequestWithHintToDecoder" {
					nm++
				}
			}
		}
		nfun := 0
		for _, d := range s.Defs {
			if d.IsFunc && d.HasID && !Excluded[d.Name] {
				nfun++
			}
		}
		if nm != nfun {
			enc.Encode(Finding{tag, "methods", "", fmt.Sprintf("the generated Client has %d methods, the schema declares %d functions", nm, nfun)})
		}
		enc.Encode(Finding{tag, "ok", "", fmt.Sprintf("%d definitions compared, %d registered, %d methods", ndefs, len(reg), nm)})
	}
}
