// Package refserver is a scriptable MTProto 1.0 server written from the public documentation on top of
// ref/mtp and ref/tlschema. It speaks to the real client over loopback TCP, logs everything it decrypts
// and seals, and lets a scenario decide what to answer, when, and in which wrapping.
package refserver

import (
	"bytes"
	"compress/gzip"
	"crypto/rand"
	"crypto/rsa"
	"crypto/x509"
	_ "embed"
	"encoding/binary"
	"encoding/pem"
	"errors"
	"fmt"
	"io"
	"math/big"
	"net"
	"sync"
	"sync/atomic"
	"time"

	"github.com/xelaj/mtproto/zverif/ref/mtp"
)

//go:embed testkey.pem
var testKeyPEM []byte

// osRand is the OS source captured at package initialisation: the worker later replaces
// crypto/rand.Reader to observe and script the CLIENT's draws, and the server must not consume those.
var osRand = rand.Reader

var (
	keyOnce sync.Once
	testKey *rsa.PrivateKey
)

//go:embed testkey_e3.pem
var testKeyE3 []byte

//go:embed testkey_e257.pem
var testKeyE257 []byte

//go:embed testkey_e2147483647.pem
var testKeyEBig []byte

var (
	moreOnce sync.Once
	moreKeys []*rsa.PrivateKey
)

// TestKeys returns the committed RSA-2048 key pairs: the usual one (e = 65537) and three whose public exponents
// crypto/rsa never generates (3, 257, 2^31-1; made by cmd/keygen). A server may use any RSA-2048 key.
func TestKeys() []*rsa.PrivateKey {
	moreOnce.Do(func() {
		moreKeys = []*rsa.PrivateKey{TestKey()}
		for _, b := range [][]byte{testKeyE3, testKeyE257, testKeyEBig} {
			blk, _ := pem.Decode(b)
			k, err := x509.ParsePKCS1PrivateKey(blk.Bytes)
			if err != nil {
				panic(err)
			}
			moreKeys = append(moreKeys, k)
		}
	})
	return moreKeys
}

// TestKey returns the committed RSA-2048 test key pair.
func TestKey() *rsa.PrivateKey {
	keyOnce.Do(func() {
		blk, _ := pem.Decode(testKeyPEM)
		k, err := x509.ParsePKCS8PrivateKey(blk.Bytes)
		if err != nil {
			panic(err)
		}
		testKey = k.(*rsa.PrivateKey)
	})
	return testKey
}

// KeyStore is shared between "data centres".
type KeyStore struct {
	mu   sync.Mutex
	keys map[[8]byte][]byte
}

func NewKeyStore() *KeyStore { return &KeyStore{keys: map[[8]byte][]byte{}} }
func (k *KeyStore) Add(key []byte) {
	var id [8]byte
	copy(id[:], mtp.AuthKeyID(key))
	k.mu.Lock()
	k.keys[id] = key
	k.mu.Unlock()
}
func (k *KeyStore) Get(id []byte) []byte {
	var i [8]byte
	copy(i[:], id)
	k.mu.Lock()
	defer k.mu.Unlock()
	return k.keys[i]
}

type Emit func(ev string, data map[string]interface{})

// Handler decides the server's behaviour for decrypted client messages.
type Handler interface {
	// OnMessage is called for every decrypted client message, in arrival order, on the connection's goroutine.
	OnMessage(c *Conn, in *mtp.Inner)
}

type HandlerFunc func(c *Conn, in *mtp.Inner)

func (f HandlerFunc) OnMessage(c *Conn, in *mtp.Inner) { f(c, in) }

// HSFields are the values of one handshake reply, open to tampering before serialisation.
type HSFields struct {
	Stage string // "resPQ", "dh_params", "dh_gen"
	// outer reply
	Nonce, ServerNonce []byte
	PQ                 []byte
	Fingerprints       []int64
	Constructor        uint32 // reply constructor id
	// server_DH_inner_data
	InnerNonce, InnerServerNonce []byte
	G                            int32
	Prime, GA                    []byte
	ServerTime                   int32
	AnswerPad                    int    // -1: minimal legal padding
	HashXor                      []byte // xor-ed into the SHA-1 prefix before sealing
	PostSeal                     func(enc []byte) []byte
	// dh_gen_*
	NewNonceHash []byte
	// InnerOverride, if non-nil, replaces the serialised server_DH_inner_data (hash and padding are computed over it honestly)
	InnerOverride func(honest []byte) []byte
	// ReplyOverride, if non-nil, replaces the whole plaintext reply body of this stage
	ReplyOverride []byte
	// AuthKey, Salt: what the server has derived by the time of the dh_gen stage (read-only, for fault scripts)
	AuthKey  []byte
	Salt     int64
	NewNonce []byte
	// RawBefore: transport payloads written (each as one frame) just before the reply of this stage
	RawBefore [][]byte
}

type Server struct {
	ln      net.Listener
	Addr    string
	Keys    *KeyStore
	RSA     *rsa.PrivateKey
	Emit    Emit
	Handler Handler
	// Tamper, if set, may alter handshake replies (fault injection).
	Tamper func(f *HSFields)
	// Choose lets a scenario fix the server's handshake draws.
	ChooseServerNonce func() []byte
	ChoosePQ          func() (p, q uint64)
	ChooseA           func() *big.Int
	// ServerTime, if set, supplies server_time of server_DH_inner_data (a server's clock is its own: the exchange
	// does not depend on it and a conformant server may be minutes or years away from the client's clock)
	ServerTime func() int32
	G                 int32
	InitialSalt       func(derived int64) int64 // nil: the derived salt
	// ClockOffset (seconds, atomic) is added to the server's clock where message ids are made: a server whose
	// clock reads 2038 or later produces ids with the top bit set.
	ClockOffset int64
	// DropAccepted (atomic): that many of the next accepted connections are closed at once.
	DropAccepted int32

	mu     sync.Mutex
	conns  []*Conn
	nconn  int32
	salts  map[[8]byte]int64 // current salt per key id
	closed int32
	msgSeq int64
	Name   string
	wg     sync.WaitGroup
}

func New(name string, keys *KeyStore, emit Emit, h Handler) (*Server, error) {
	ln, err := net.Listen("tcp", "127.0.0.1:0")
	if err != nil {
		return nil, err
	}
	s := &Server{ln: ln, Addr: ln.Addr().String(), Keys: keys, RSA: TestKey(), Emit: emit, Handler: h, G: 3, salts: map[[8]byte]int64{}, Name: name}
	s.wg.Add(1)
	go s.acceptLoop()
	return s, nil
}

func (s *Server) Close() {
	atomic.StoreInt32(&s.closed, 1)
	s.ln.Close()
	s.mu.Lock()
	for _, c := range s.conns {
		c.nc.Close()
	}
	s.mu.Unlock()
	s.wg.Wait()
}

func (s *Server) Conns() []*Conn {
	s.mu.Lock()
	defer s.mu.Unlock()
	return append([]*Conn{}, s.conns...)
}

func (s *Server) SetSalt(key []byte, salt int64) {
	var id [8]byte
	copy(id[:], mtp.AuthKeyID(key))
	s.mu.Lock()
	s.salts[id] = salt
	s.mu.Unlock()
}

func (s *Server) Salt(key []byte) (int64, bool) {
	var id [8]byte
	copy(id[:], mtp.AuthKeyID(key))
	s.mu.Lock()
	defer s.mu.Unlock()
	v, ok := s.salts[id]
	return v, ok
}

func (s *Server) emit(ev string, d map[string]interface{}) {
	if s.Emit != nil {
		d["srv"] = s.Name
		s.Emit(ev, d)
	}
}

func (s *Server) acceptLoop() {
	defer s.wg.Done()
	for {
		nc, err := s.ln.Accept()
		if err != nil {
			return
		}
		if tc, ok := nc.(*net.TCPConn); ok {
			tc.SetNoDelay(true)
		}
		if atomic.LoadInt32(&s.DropAccepted) > 0 {
			// scripted: the next connections are accepted and closed at once (a server that is restarting)
			atomic.AddInt32(&s.DropAccepted, -1)
			s.emit("srv.conn", map[string]interface{}{"conn": 0, "what": "accepted-and-dropped"})
			nc.Close()
			continue
		}
		c := &Conn{S: s, nc: nc, ID: int(atomic.AddInt32(&s.nconn, 1))}
		s.mu.Lock()
		s.conns = append(s.conns, c)
		s.mu.Unlock()
		s.emit("srv.conn", map[string]interface{}{"conn": c.ID, "what": "accept"})
		s.wg.Add(1)
		go func() {
			defer s.wg.Done()
			c.serve()
			s.emit("srv.conn", map[string]interface{}{"conn": c.ID, "what": "closed"})
		}()
	}
}

// ---------------------------------------------------------------------------------------------

type hsState struct {
	nonce, serverNonce, newNonce []byte
	p, q                         uint64
	a                            *big.Int
	ga                           []byte
}

type Conn struct {
	S    *Server
	nc   net.Conn
	ID   int
	Mode string
	wmu  sync.Mutex
	hs   *hsState

	kmu       sync.Mutex
	Key       []byte // auth key in use on this connection (after handshake or first encrypted frame); use KeySession() off the connection goroutine
	Session   int64
	PlainRecv int32 // plaintext frames received
	EncRecv   int32
	seq       int32 // server's content-related counter
	Closed    int32
}

func (c *Conn) serve() {
	defer c.nc.Close()
	mode, err := mtp.DetectMode(c.nc)
	if err != nil {
		return
	}
	c.Mode = mode
	for {
		frame, err := mtp.ReadFrame(mode, c.nc)
		if err != nil {
			return
		}
		if len(frame) >= 8 && binary.LittleEndian.Uint64(frame) == 0 {
			atomic.AddInt32(&c.PlainRecv, 1)
			msgID, body, err := mtp.OpenPlain(frame)
			c.S.emit("srv.plain", map[string]interface{}{"conn": c.ID, "msg_id": fmt.Sprint(msgID), "len": len(body), "ok": err == nil, "ctor": ctorOf(body)})
			if err != nil {
				c.S.emit("srv.badframe", map[string]interface{}{"conn": c.ID, "err": err.Error(), "plain": true})
				continue
			}
			c.handlePlain(msgID, body)
			continue
		}
		if len(frame) < 24 {
			c.S.emit("srv.badframe", map[string]interface{}{"conn": c.ID, "err": "short frame", "len": len(frame)})
			continue
		}
		key := c.S.Keys.Get(frame[:8])
		if key == nil {
			c.S.emit("srv.badframe", map[string]interface{}{"conn": c.ID, "err": "unknown auth_key_id", "len": len(frame)})
			c.SendRaw(le32(uint32(0xfffffe6c))) // -404
			continue
		}
		in, err := mtp.Open(key, frame, 0)
		if err != nil {
			c.S.emit("srv.badframe", map[string]interface{}{"conn": c.ID, "err": err.Error(), "len": len(frame), "hex": fmt.Sprintf("%x", clip(frame, 96))})
			continue
		}
		c.kmu.Lock()
		c.Key = key
		c.Session = in.Session
		c.kmu.Unlock()
		atomic.AddInt32(&c.EncRecv, 1)
		c.S.emit("srv.recv", map[string]interface{}{"conn": c.ID, "salt": fmt.Sprint(in.Salt), "session": fmt.Sprint(in.Session), "msg_id": fmt.Sprint(in.MsgID), "seq_no": in.SeqNo,
			"ctor": ctorOf(in.Body), "len": len(in.Body), "pad": in.PadLen, "key_id": fmt.Sprintf("%x", frame[:8])})
		if c.S.Handler != nil {
			c.S.Handler.OnMessage(c, in)
		}
	}
}

func clip(b []byte, n int) []byte {
	if len(b) > n {
		return b[:n]
	}
	return b
}

func ctorOf(b []byte) uint32 {
	if len(b) < 4 {
		return 0
	}
	return binary.LittleEndian.Uint32(b)
}

func le32(v uint32) []byte { b := make([]byte, 4); binary.LittleEndian.PutUint32(b, v); return b }
func le64(v uint64) []byte { b := make([]byte, 8); binary.LittleEndian.PutUint64(b, v); return b }

// Close closes the TCP connection (orderly).
func (c *Conn) Close() {
	atomic.StoreInt32(&c.Closed, 1)
	c.nc.Close()
}

// SendRaw writes one transport frame.
func (c *Conn) SendRaw(payload []byte) error {
	f, err := mtp.Frame(c.Mode, payload)
	if err != nil {
		return err
	}
	c.wmu.Lock()
	defer c.wmu.Unlock()
	_, err = c.nc.Write(f)
	return err
}

var globalMsgCounter int64

// NextMsgID returns an increasing server msg_id with the given low bits (1: response, 3: notification).
func (s *Server) NextMsgID(low int64) int64 {
	n := atomic.AddInt64(&globalMsgCounter, 1)
	return ((time.Now().Unix() + atomic.LoadInt64(&s.ClockOffset)) << 32) | ((n << 2) & 0xfffffffc) | low
}

// SetSeq sets the connection's count of content-related messages sent so far (a long-lived busy session is close
// to the 2^31 wrap of seq_no: 2n+1 for n >= 2^30 is negative as int32).
func (c *Conn) SetSeq(n int32) { atomic.StoreInt32(&c.seq, n) }

// NextSeq returns the server seq_no for a content-related (odd) or service (even) message.
func (c *Conn) NextSeq(content bool) int32 {
	if content {
		v := atomic.AddInt32(&c.seq, 1)
		return (v-1)*2 + 1
	}
	return atomic.LoadInt32(&c.seq) * 2
}

type Out struct {
	MsgID int64
	SeqNo int32
	Body  []byte
}

// KeySession returns the key and session id last seen on this connection.
func (c *Conn) KeySession() ([]byte, int64) {
	c.kmu.Lock()
	defer c.kmu.Unlock()
	return c.Key, c.Session
}

// SendEncrypted seals and sends one message under the connection's key and the salt/session given.
func (c *Conn) SendEncrypted(o Out, salt int64, kind string, extra map[string]interface{}) error {
	key, session := c.KeySession()
	if key == nil {
		return errors.New("no key on this connection")
	}
	in := mtp.Inner{Salt: salt, Session: session, MsgID: o.MsgID, SeqNo: o.SeqNo, Body: o.Body}
	pad := randBytes((16 - (32+len(o.Body))%16) % 16)
	pkt := mtp.Seal(key, in, 8, pad)
	d := map[string]interface{}{"conn": c.ID, "msg_id": fmt.Sprint(o.MsgID), "seq_no": o.SeqNo, "kind": kind, "len": len(o.Body), "ctor": ctorOf(o.Body)}
	for k, v := range extra {
		d[k] = v
	}
	c.S.emit("srv.send", d)
	return c.SendRaw(pkt)
}

// RPCResult builds rpc_result#f35c6d01 req_msg_id:long result:Object.
func RPCResult(reqMsgID int64, result []byte) []byte {
	return append(append(le32(0xf35c6d01), le64(uint64(reqMsgID))...), result...)
}

func RPCError(code int32, text string) []byte {
	return append(append(le32(0x2144ca19), le32(uint32(code))...), mtp.TLBytes([]byte(text))...)
}

func Gzip(body []byte) []byte {
	var z bytes.Buffer
	zw := gzip.NewWriter(&z)
	zw.Write(body)
	zw.Close()
	return append(le32(0x3072cfa1), mtp.TLBytes(z.Bytes())...)
}

// Container builds msg_container#73f1f8dc.
func Container(items []Out) []byte {
	b := append(le32(0x73f1f8dc), le32(uint32(len(items)))...)
	for _, it := range items {
		b = append(b, le64(uint64(it.MsgID))...)
		b = append(b, le32(uint32(it.SeqNo))...)
		b = append(b, le32(uint32(len(it.Body)))...)
		b = append(b, it.Body...)
	}
	return b
}

func Pong(msgID, pingID int64) []byte {
	return append(append(le32(0x347773c5), le64(uint64(msgID))...), le64(uint64(pingID))...)
}

func BadServerSalt(badMsgID int64, badSeq int32, newSalt int64) []byte {
	b := append(le32(0xedab447b), le64(uint64(badMsgID))...)
	b = append(b, le32(uint32(badSeq))...)
	b = append(b, le32(48)...)
	return append(b, le64(uint64(newSalt))...)
}

func NewSessionCreated(firstMsgID, uniqueID, salt int64) []byte {
	b := append(le32(0x9ec20908), le64(uint64(firstMsgID))...)
	b = append(b, le64(uint64(uniqueID))...)
	return append(b, le64(uint64(salt))...)
}

func MsgsAck(ids []int64) []byte {
	b := append(le32(0x62d6b459), le32(0x1cb5c415)...)
	b = append(b, le32(uint32(len(ids)))...)
	for _, id := range ids {
		b = append(b, le64(uint64(id))...)
	}
	return b
}

// ParseMsgsAck returns the ids of a msgs_ack body (nil if it is not one).
func ParseMsgsAck(body []byte) []int64 {
	if len(body) < 12 || ctorOf(body) != 0x62d6b459 || binary.LittleEndian.Uint32(body[4:]) != 0x1cb5c415 {
		return nil
	}
	n := int(binary.LittleEndian.Uint32(body[8:]))
	if n < 0 || 12+8*n > len(body) {
		return nil
	}
	ids := make([]int64, n)
	for i := range ids {
		ids[i] = int64(binary.LittleEndian.Uint64(body[12+8*i:]))
	}
	return ids
}

// ---------------------------------------------------------------------------------------------
// Handshake, server side.

type rd struct {
	b   []byte
	pos int
	err error
}

func (r *rd) raw(n int) []byte {
	if r.err != nil || n < 0 || r.pos+n > len(r.b) {
		r.err = io.ErrUnexpectedEOF
		return make([]byte, n&0xffff)
	}
	v := r.b[r.pos : r.pos+n]
	r.pos += n
	return v
}
func (r *rd) u32() uint32 { return binary.LittleEndian.Uint32(r.raw(4)) }
func (r *rd) u64() uint64 { return binary.LittleEndian.Uint64(r.raw(8)) }
func (r *rd) bytes() []byte {
	h := r.raw(1)
	n := int(h[0])
	hdr := 1
	if n == 254 {
		l := r.raw(3)
		n = int(l[0]) | int(l[1])<<8 | int(l[2])<<16
		hdr = 4
	}
	v := r.raw(n)
	for (hdr+n)%4 != 0 {
		r.raw(1)
		n++
	}
	return v
}

func (c *Conn) sendPlainOr(f *HSFields, body []byte) {
	if f != nil && f.ReplyOverride != nil {
		body = f.ReplyOverride
	}
	if f != nil {
		for _, raw := range f.RawBefore {
			c.S.emit("srv.rawsend", map[string]interface{}{"conn": c.ID, "len": len(raw)})
			c.SendRaw(raw)
		}
	}
	c.sendPlain(body)
}

func (c *Conn) sendPlain(body []byte) {
	id := c.S.NextMsgID(1)
	c.S.emit("srv.plainsend", map[string]interface{}{"conn": c.ID, "msg_id": fmt.Sprint(id), "ctor": ctorOf(body), "len": len(body)})
	c.SendRaw(mtp.SealPlain(id, body))
}

func randBytes(n int) []byte { b := make([]byte, n); io.ReadFull(osRand, b); return b }

func randPrime31() uint64 {
	for {
		p, err := rand.Prime(osRand, 31)
		if err == nil {
			return p.Uint64()
		}
	}
}

func (c *Conn) handlePlain(msgID int64, body []byte) {
	s := c.S
	r := &rd{b: body}
	switch r.u32() {
	case 0x60469778: // req_pq nonce:int128
		nonce := append([]byte{}, r.raw(16)...)
		if r.err != nil {
			return
		}
		h := &hsState{nonce: nonce}
		c.hs = h
		h.serverNonce = randBytes(16)
		if s.ChooseServerNonce != nil {
			h.serverNonce = s.ChooseServerNonce()
		}
		h.p, h.q = randPrime31(), randPrime31()
		if s.ChoosePQ != nil {
			h.p, h.q = s.ChoosePQ()
		}
		if h.p > h.q {
			h.p, h.q = h.q, h.p
		}
		pq := new(big.Int).Mul(new(big.Int).SetUint64(h.p), new(big.Int).SetUint64(h.q))
		f := &HSFields{Stage: "resPQ", Nonce: nonce, ServerNonce: h.serverNonce, PQ: pq.Bytes(), Fingerprints: []int64{mtp.Fingerprint(s.RSA.N, s.RSA.E)}, Constructor: 0x05162463}
		if s.Tamper != nil {
			s.Tamper(f)
		}
		s.emit("hs.req_pq", map[string]interface{}{"conn": c.ID, "nonce": fmt.Sprintf("%x", nonce), "server_nonce": fmt.Sprintf("%x", h.serverNonce), "p": h.p, "q": h.q})
		b := le32(f.Constructor)
		b = append(b, f.Nonce...)
		b = append(b, f.ServerNonce...)
		b = append(b, mtp.TLBytes(f.PQ)...)
		b = append(b, le32(0x1cb5c415)...)
		b = append(b, le32(uint32(len(f.Fingerprints)))...)
		for _, fp := range f.Fingerprints {
			b = append(b, le64(uint64(fp))...)
		}
		c.sendPlainOr(f, b)
	case 0xd712e4be: // req_DH_params nonce server_nonce p q fingerprint encrypted_data
		h := c.hs
		if h == nil {
			return
		}
		nonce, sn := r.raw(16), r.raw(16)
		p, q := r.bytes(), r.bytes()
		fp := int64(r.u64())
		enc := r.bytes()
		if r.err != nil {
			s.emit("hs.error", map[string]interface{}{"conn": c.ID, "stage": "req_DH_params", "err": "malformed"})
			return
		}
		okReq := bytes.Equal(nonce, h.nonce) && bytes.Equal(sn, h.serverNonce) && new(big.Int).SetBytes(p).Uint64() == h.p && new(big.Int).SetBytes(q).Uint64() == h.q && fp == mtp.Fingerprint(s.RSA.N, s.RSA.E) && len(enc) == 256
		// RSA-decrypt: 256-byte number -> 0x00 | SHA1(data) | data | padding
		m := mtp.RSAPrivate(enc, s.RSA.N, s.RSA.D)
		var newNonce []byte
		inner := &rd{b: m[21:]}
		innerOK := false
		lead := m[0]
		if inner.u32() == 0x83c95aec {
			ipq, ip, iq := inner.bytes(), inner.bytes(), inner.bytes()
			in, isn := inner.raw(16), inner.raw(16)
			newNonce = append([]byte{}, inner.raw(32)...)
			if inner.err == nil {
				data := m[21 : 21+inner.pos]
				h1 := shaSum(data)
				innerOK = lead == 0 && bytes.Equal(h1, m[1:21]) && bytes.Equal(in, h.nonce) && bytes.Equal(isn, h.serverNonce) &&
					bytes.Equal(ip, p) && bytes.Equal(iq, q) && new(big.Int).SetBytes(ipq).Cmp(new(big.Int).Mul(new(big.Int).SetUint64(h.p), new(big.Int).SetUint64(h.q))) == 0
			}
		}
		s.emit("hs.req_dh", map[string]interface{}{"conn": c.ID, "outer_ok": okReq, "inner_ok": innerOK, "new_nonce": fmt.Sprintf("%x", newNonce), "enc": fmt.Sprintf("%x", enc), "p_len": len(p), "q_len": len(q)})
		if !okReq || !innerOK {
			// a conformant server cannot continue: it does not know new_nonce
			s.emit("hs.error", map[string]interface{}{"conn": c.ID, "stage": "req_DH_params", "err": "client request not decryptable / inconsistent"})
			return
		}
		h.newNonce = newNonce
		h.a = new(big.Int).SetBytes(randBytes(256))
		if s.ChooseA != nil {
			h.a = s.ChooseA()
		}
		ga := new(big.Int).Exp(big.NewInt(int64(s.G)), h.a, mtp.DHPrime)
		h.ga = ga.Bytes()
		f := &HSFields{Stage: "dh_params", Nonce: h.nonce, ServerNonce: h.serverNonce, Constructor: 0xd0e8075c,
			InnerNonce: h.nonce, InnerServerNonce: h.serverNonce, G: s.G, Prime: mtp.DHPrime.Bytes(), GA: h.ga, ServerTime: int32(time.Now().Unix()), AnswerPad: -1}
		if s.ServerTime != nil {
			f.ServerTime = s.ServerTime()
		}
		if s.Tamper != nil {
			s.Tamper(f)
		}
		if f.Constructor == 0x79cb045d { // server_DH_params_fail nonce server_nonce new_nonce_hash
			b := le32(f.Constructor)
			b = append(b, f.Nonce...)
			b = append(b, f.ServerNonce...)
			b = append(b, shaSum(h.newNonce)[4:20]...)
			c.sendPlain(b)
			return
		}
		ans := le32(0xb5890dba)
		ans = append(ans, f.InnerNonce...)
		ans = append(ans, f.InnerServerNonce...)
		ans = append(ans, le32(uint32(f.G))...)
		ans = append(ans, mtp.TLBytes(f.Prime)...)
		ans = append(ans, mtp.TLBytes(f.GA)...)
		ans = append(ans, le32(uint32(f.ServerTime))...)
		if f.InnerOverride != nil {
			ans = f.InnerOverride(ans)
		}
		padLen := (16 - (20+len(ans))%16) % 16
		switch {
		case f.AnswerPad >= 0:
			padLen = f.AnswerPad
		case f.AnswerPad == -2:
			padLen += 16 // more than the 0..15 bytes the format allows
		case f.AnswerPad == -3:
			padLen += 32
		}
		hash := shaSum(ans)
		for i := range f.HashXor {
			hash[i] ^= f.HashXor[i]
		}
		plain := append(append(hash, ans...), randBytes(padLen)...)
		var encAns []byte
		if len(plain)%16 == 0 {
			k, iv := mtp.TempKeys(h.newNonce, h.serverNonce)
			encAns, _ = mtp.IGEEncrypt(k, iv, plain)
		} else {
			// deliberately not block-aligned (fault): encrypt the aligned prefix and append the rest
			k, iv := mtp.TempKeys(h.newNonce, h.serverNonce)
			al := len(plain) / 16 * 16
			encAns, _ = mtp.IGEEncrypt(k, iv, plain[:al])
			encAns = append(encAns, plain[al:]...)
		}
		if f.PostSeal != nil {
			encAns = f.PostSeal(encAns)
		}
		s.emit("hs.dh_params", map[string]interface{}{"conn": c.ID, "g_a": fmt.Sprintf("%x", f.GA), "answer_len": len(ans), "pad": padLen})
		b := le32(f.Constructor)
		b = append(b, f.Nonce...)
		b = append(b, f.ServerNonce...)
		b = append(b, mtp.TLBytes(encAns)...)
		c.sendPlainOr(f, b)
	case 0xf5045f1f: // set_client_DH_params nonce server_nonce encrypted_data
		h := c.hs
		if h == nil || h.newNonce == nil {
			return
		}
		nonce, sn := r.raw(16), r.raw(16)
		enc := r.bytes()
		if r.err != nil || !bytes.Equal(nonce, h.nonce) || !bytes.Equal(sn, h.serverNonce) {
			s.emit("hs.error", map[string]interface{}{"conn": c.ID, "stage": "set_client_DH_params", "err": "outer mismatch"})
			return
		}
		data, pad, err := mtp.OpenTemp(h.newNonce, h.serverNonce, enc)
		if err != nil {
			s.emit("hs.error", map[string]interface{}{"conn": c.ID, "stage": "set_client_DH_params", "err": err.Error()})
			return
		}
		ir := &rd{b: data}
		if ir.u32() != 0x6643b654 {
			s.emit("hs.error", map[string]interface{}{"conn": c.ID, "stage": "set_client_DH_params", "err": "not client_DH_inner_data"})
			return
		}
		in, isn := ir.raw(16), ir.raw(16)
		ir.u64() // retry_id
		gb := ir.bytes()
		if ir.err != nil || !bytes.Equal(in, h.nonce) || !bytes.Equal(isn, h.serverNonce) {
			s.emit("hs.error", map[string]interface{}{"conn": c.ID, "stage": "set_client_DH_params", "err": "inner mismatch"})
			return
		}
		gbI := new(big.Int).SetBytes(gb)
		authKey := mtp.LeftPad(new(big.Int).Exp(gbI, h.a, mtp.DHPrime).Bytes(), 256)
		salt := mtp.InitialSalt(h.newNonce, h.serverNonce)
		f := &HSFields{Stage: "dh_gen", Nonce: h.nonce, ServerNonce: h.serverNonce, Constructor: 0x3bcbf734, NewNonceHash: mtp.NewNonceHash(h.newNonce, authKey, 1), AuthKey: authKey, Salt: mtp.InitialSalt(h.newNonce, h.serverNonce), NewNonce: h.newNonce}
		if s.Tamper != nil {
			s.Tamper(f)
		}
		s.emit("hs.done", map[string]interface{}{"conn": c.ID, "g_b": fmt.Sprintf("%x", gb), "auth_key": fmt.Sprintf("%x", authKey), "salt": fmt.Sprint(salt), "client_pad": pad,
			"new_nonce_hash1": fmt.Sprintf("%x", f.NewNonceHash), "nonce": fmt.Sprintf("%x", h.nonce), "server_nonce": fmt.Sprintf("%x", h.serverNonce), "new_nonce": fmt.Sprintf("%x", h.newNonce), "tampered": s.Tamper != nil})
		if f.Constructor == 0x3bcbf734 {
			s.Keys.Add(authKey)
			s.SetSalt(authKey, salt)
		}
		b := le32(f.Constructor)
		b = append(b, f.Nonce...)
		b = append(b, f.ServerNonce...)
		b = append(b, f.NewNonceHash...)
		c.sendPlainOr(f, b)
	default:
		s.emit("hs.error", map[string]interface{}{"conn": c.ID, "stage": "plain", "err": fmt.Sprintf("unexpected plain constructor %#08x", ctorOf(body))})
	}
}
