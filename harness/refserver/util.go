package refserver

import "crypto/sha1"

func shaSum(b []byte) []byte { h := sha1.Sum(b); return h[:] }
