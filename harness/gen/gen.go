// Package gen builds Go values of the library's registered types by reflection alone (type-directed,
// independent of the schema text): boundary numbers, boundary string lengths, every enum member,
// every implementer of an interface, and TL-consistent presence patterns read from the struct tags.
package gen

import (
	"math"
	"math/big"
	"math/rand"
	"reflect"
	"sort"
	"strconv"
	"strings"

	"github.com/xelaj/mtproto/internal/encoding/tl"
)

var (
	TObject = reflect.TypeOf((*tl.Object)(nil)).Elem()
	tInt128 = reflect.TypeOf(&tl.Int128{})
	tInt256 = reflect.TypeOf(&tl.Int256{})
	tBytes  = reflect.TypeOf([]byte{})
)

type Universe struct {
	Types     []reflect.Type                  // registered types (ptr-to-struct or enum types), sorted by name
	EnumVals  map[reflect.Type][]uint32       // enum type -> member ids
	impl      map[reflect.Type][]reflect.Type // interface -> implementers
	Cost      map[reflect.Type]int            // minimal nesting depth to build a value
	SkipNames map[string]bool
}

func NewUniverse(objects map[uint32]reflect.Type, enums map[uint32]struct{}, skip map[string]bool) *Universe {
	u := &Universe{EnumVals: map[reflect.Type][]uint32{}, impl: map[reflect.Type][]reflect.Type{}, Cost: map[reflect.Type]int{}, SkipNames: skip}
	seen := map[reflect.Type]bool{}
	var ids []uint32
	for id := range objects {
		ids = append(ids, id)
	}
	sort.Slice(ids, func(i, j int) bool { return ids[i] < ids[j] })
	for _, id := range ids {
		t := objects[id]
		if t.Kind() == reflect.Uint32 {
			u.EnumVals[t] = append(u.EnumVals[t], id)
		}
		if !seen[t] && !skip[t.String()] {
			seen[t] = true
			u.Types = append(u.Types, t)
		}
	}
	sort.Slice(u.Types, func(i, j int) bool { return u.Types[i].String() < u.Types[j].String() })
	u.computeCosts()
	return u
}

func (u *Universe) Implementers(it reflect.Type) []reflect.Type {
	if v, ok := u.impl[it]; ok {
		return v
	}
	var out []reflect.Type
	for _, t := range u.Types {
		if t.Implements(it) {
			out = append(out, t)
		}
	}
	u.impl[it] = out
	return out
}

// Ifaces lists the interface types that fields of registered types are declared with (sorted by name).
func (u *Universe) Ifaces() []reflect.Type {
	seen := map[reflect.Type]bool{}
	var out []reflect.Type
	var walk func(t reflect.Type)
	walk = func(t reflect.Type) {
		switch t.Kind() {
		case reflect.Interface:
			if t != TObject && t.NumMethod() > 0 && !seen[t] {
				seen[t] = true
				out = append(out, t)
			}
		case reflect.Slice:
			walk(t.Elem())
		}
	}
	for _, t := range u.Types {
		if t.Kind() == reflect.Ptr && t.Elem().Kind() == reflect.Struct {
			for i := 0; i < t.Elem().NumField(); i++ {
				walk(t.Elem().Field(i).Type)
			}
		}
	}
	sort.Slice(out, func(i, j int) bool { return out[i].String() < out[j].String() })
	return out
}

const inf = 1 << 20

func (u *Universe) typeCost(t reflect.Type) int {
	switch t.Kind() {
	case reflect.Ptr:
		if t == tInt128 || t == tInt256 {
			return 0
		}
		if c, ok := u.Cost[t]; ok {
			return c
		}
		return inf
	case reflect.Interface:
		best := inf
		for _, im := range u.Implementers(t) {
			if c, ok := u.Cost[im]; ok && c < best {
				best = c
			}
		}
		return best
	}
	return 0
}

func (u *Universe) computeCosts() {
	for _, t := range u.Types {
		u.Cost[t] = inf
		if t.Kind() == reflect.Uint32 {
			u.Cost[t] = 0
		}
	}
	for changed := true; changed; {
		changed = false
		for _, t := range u.Types {
			if t.Kind() != reflect.Ptr || t.Elem().Kind() != reflect.Struct {
				if t.Kind() != reflect.Uint32 && u.Cost[t] == inf {
					u.Cost[t] = 1
					changed = true
				}
				continue
			}
			m := 0
			for i := 0; i < t.Elem().NumField(); i++ {
				f := t.Elem().Field(i)
				if strings.HasPrefix(f.Tag.Get("tl"), "flag:") {
					continue
				}
				if c := u.typeCost(f.Type); c > m {
					m = c
				}
			}
			if m+1 < u.Cost[t] {
				u.Cost[t] = m + 1
				changed = true
			}
		}
	}
}

type G struct {
	U           *Universe
	R           *rand.Rand
	MaxDepth    int
	ForceStrLen int // >=0: used for the first string/bytes field met
	Simple      bool
	ImplPick    int // >=0: for the first interface-typed field met, use implementer number ImplPick (mod n)
	Boundary    bool
	ForceVecLen int // >0: length of the first vector met (then reset); elements are the cheapest values of the type
}

var StrLens = []int{0, 0, 1, 2, 3, 4, 5, 6, 7, 8, 9, 100, 251, 252, 253, 254, 255, 256, 257, 258, 1000}
var ints = []int64{0, 1, -1, 127, 128, 255, 256, 65535, 65536, math.MaxInt32, math.MinInt32, 0x01020304}
var longs = []int64{0, 1, -1, 255, 256, math.MaxInt32, math.MinInt32, 1 << 32, math.MaxInt64, math.MinInt64, 0x0102030405060708}
var dbls = []float64{0, math.Copysign(0, -1), 1, -1, 1.5, math.MaxFloat64, math.SmallestNonzeroFloat64, math.Inf(1), math.Inf(-1), math.NaN()}

func (g *G) strLen() int {
	if g.ForceStrLen >= 0 {
		n := g.ForceStrLen
		g.ForceStrLen = -1
		return n
	}
	if g.Simple {
		return g.R.Intn(5)
	}
	return StrLens[g.R.Intn(len(StrLens))]
}

func (g *G) bytesOf(n int) []byte {
	b := make([]byte, n)
	if n <= 2048 {
		g.R.Read(b)
	} else {
		for i := range b {
			b[i] = byte(i*131 + n)
		}
	}
	return b
}

// FlagGroups returns the flag bits of a struct type in order of first appearance.
func FlagGroups(st reflect.Type) []int {
	seen := map[int]bool{}
	var out []int
	for i := 0; i < st.NumField(); i++ {
		if b, _, ok := ParseTag(st.Field(i).Tag.Get("tl")); ok && !seen[b] {
			seen[b] = true
			out = append(out, b)
		}
	}
	return out
}

func ParseTag(tag string) (bit int, inBits bool, ok bool) {
	if !strings.HasPrefix(tag, "flag:") {
		return 0, false, false
	}
	rest := strings.TrimPrefix(tag, "flag:")
	parts := strings.Split(rest, ",")
	b, err := strconv.Atoi(parts[0])
	if err != nil {
		return 0, false, false
	}
	for _, p := range parts[1:] {
		if p == "encoded_in_bitflags" {
			inBits = true
		}
	}
	return b, inBits, true
}

// Object builds a value of registered type t (ptr-to-struct or enum). presence (may be nil) decides the
// top-level struct's groups.
func (g *G) Object(t reflect.Type, presence map[int]bool, depth int) reflect.Value {
	if t.Kind() == reflect.Uint32 {
		vals := g.U.EnumVals[t]
		return reflect.ValueOf(vals[g.R.Intn(len(vals))]).Convert(t)
	}
	st := t.Elem()
	obj := reflect.New(st)
	if st.Kind() != reflect.Struct {
		return obj
	}
	groups := map[int]bool{}
	for _, b := range FlagGroups(st) {
		switch {
		case presence != nil:
			groups[b] = presence[b]
		case depth >= g.MaxDepth:
			groups[b] = false
		default:
			groups[b] = g.R.Intn(2) == 0
		}
	}
	for i := 0; i < st.NumField(); i++ {
		f := st.Field(i)
		if f.Tag.Get("tl") == "-" || f.PkgPath != "" {
			continue
		}
		bit, inBits, conditional := ParseTag(f.Tag.Get("tl"))
		if conditional && !groups[bit] {
			continue
		}
		if conditional && inBits {
			obj.Elem().Field(i).SetBool(true)
			continue
		}
		obj.Elem().Field(i).Set(g.Value(f.Type, depth+1, conditional))
	}
	return obj
}

// Value builds a value of field type t. mustBePresent: pointers/interfaces/slices must be non-nil.
func (g *G) Value(t reflect.Type, depth int, conditional bool) reflect.Value {
	r := g.R
	switch t.Kind() {
	case reflect.Int32:
		if r.Intn(2) == 0 {
			return reflect.ValueOf(int32(ints[r.Intn(len(ints))])).Convert(t)
		}
		return reflect.ValueOf(int32(r.Uint32())).Convert(t)
	case reflect.Int64:
		if r.Intn(2) == 0 {
			return reflect.ValueOf(longs[r.Intn(len(longs))]).Convert(t)
		}
		return reflect.ValueOf(int64(r.Uint64())).Convert(t)
	case reflect.Float64:
		if r.Intn(2) == 0 {
			f := dbls[r.Intn(len(dbls))]
			if conditional && f == 0 {
				f = 0 // -0.0 alone in a conditional group is numerically zero = absent; the statement does not settle its sign bit
			}
			return reflect.ValueOf(f).Convert(t)
		}
		return reflect.ValueOf(math.Float64frombits(r.Uint64())).Convert(t)
	case reflect.Bool:
		return reflect.ValueOf(r.Intn(2) == 0).Convert(t)
	case reflect.String:
		return reflect.ValueOf(string(g.bytesOf(g.strLen()))).Convert(t)
	case reflect.Uint32:
		if vals := g.U.EnumVals[t]; len(vals) > 0 {
			return reflect.ValueOf(vals[r.Intn(len(vals))]).Convert(t)
		}
		return reflect.ValueOf(r.Uint32()).Convert(t)
	case reflect.Slice:
		if t == tBytes {
			return reflect.ValueOf(g.bytesOf(g.strLen()))
		}
		n := 0
		if g.ForceVecLen > 0 {
			n = g.ForceVecLen
			g.ForceVecLen = 0
			sub := *g
			sub.Simple = true
			sl := reflect.MakeSlice(t, n, n)
			d := depth + 1
			if d < g.MaxDepth {
				d = g.MaxDepth
			}
			for i := 0; i < n; i++ {
				sl.Index(i).Set(sub.Value(t.Elem(), d, true))
			}
			return sl
		}
		if depth < g.MaxDepth {
			n = []int{0, 1, 1, 2, 3, 6}[r.Intn(6)]
			if g.Simple {
				n = r.Intn(3)
			}
		}
		sl := reflect.MakeSlice(t, n, n)
		for i := 0; i < n; i++ {
			sl.Index(i).Set(g.Value(t.Elem(), depth+1, true))
		}
		return sl
	case reflect.Ptr:
		if t == tInt128 || t == tInt256 {
			n := 16
			if t == tInt256 {
				n = 32
			}
			b := g.bytesOf(n)
			for z := r.Intn(4); z > 0; z-- {
				b[z-1] = 0
			}
			if t == tInt128 {
				return reflect.ValueOf(&tl.Int128{Int: new(big.Int).SetBytes(b)})
			}
			return reflect.ValueOf(&tl.Int256{Int: new(big.Int).SetBytes(b)})
		}
		return g.Object(t, nil, depth)
	case reflect.Interface:
		impls := g.U.Implementers(t)
		if t == TObject {
			// any simple registered object
			var simple []reflect.Type
			for _, im := range impls {
				if g.U.Cost[im] <= 1 {
					simple = append(simple, im)
				}
			}
			impls = simple
		}
		if len(impls) == 0 {
			return reflect.Zero(t)
		}
		var pick reflect.Type
		if g.ImplPick >= 0 {
			pick = impls[g.ImplPick%len(impls)]
			g.ImplPick = -1
			if g.U.Cost[pick] > g.MaxDepth-depth+3 {
				pick = nil
			}
		}
		if pick == nil {
			var ok []reflect.Type
			for _, im := range impls {
				if g.U.Cost[im] <= g.MaxDepth-depth+1 {
					ok = append(ok, im)
				}
			}
			if len(ok) == 0 {
				best := impls[0]
				for _, im := range impls {
					if g.U.Cost[im] < g.U.Cost[best] {
						best = im
					}
				}
				ok = []reflect.Type{best}
			}
			pick = ok[r.Intn(len(ok))]
		}
		v := reflect.New(t).Elem()
		v.Set(g.Object(pick, nil, depth))
		return v
	}
	return reflect.Zero(t)
}

// Alias rewrites v in place so that sub-objects are shared: in every slice of pointers/interfaces with two or
// more elements element 1 becomes element 0, and in every struct a later field of the same pointer/interface
// type as an earlier non-nil one is pointed at the same object. Returns how many references were redirected.
func Alias(v reflect.Value, depth int) int {
	if !v.IsValid() || depth > 6 {
		return 0
	}
	n := 0
	switch v.Kind() {
	case reflect.Interface, reflect.Ptr:
		if v.IsNil() {
			return 0
		}
		return Alias(v.Elem(), depth+1)
	case reflect.Slice:
		if v.Type() == tBytes {
			return 0
		}
		ek := v.Type().Elem().Kind()
		if v.Len() >= 2 && (ek == reflect.Ptr || ek == reflect.Interface) && v.Index(0).Type() == v.Index(1).Type() {
			if ek == reflect.Ptr && v.Index(0).Type() != tInt128 && v.Index(0).Type() != tInt256 || ek == reflect.Interface {
				v.Index(1).Set(v.Index(0))
				n++
			}
		}
		for i := 0; i < v.Len(); i++ {
			if i == 1 && n > 0 {
				continue
			}
			n += Alias(v.Index(i), depth+1)
		}
	case reflect.Struct:
		first := map[reflect.Type]reflect.Value{}
		for i := 0; i < v.NumField(); i++ {
			f := v.Field(i)
			if v.Type().Field(i).PkgPath != "" {
				continue
			}
			if (f.Kind() == reflect.Ptr || f.Kind() == reflect.Interface) && !f.IsNil() && f.Type() != tInt128 && f.Type() != tInt256 {
				if prev, ok := first[f.Type()]; ok && f.CanSet() && v.Type().Field(i).Tag.Get("tl") == "" {
					f.Set(prev)
					n++
					continue
				}
				first[f.Type()] = f
			}
			n += Alias(f, depth+1)
		}
	}
	return n
}

// Equal compares two values modulo representation: nil ≡ empty slice, big integers by value,
// doubles by bit pattern. It returns "" or a path to the first difference.
func Equal(a, b reflect.Value, path string) string {
	if !a.IsValid() || !b.IsValid() {
		if a.IsValid() != b.IsValid() {
			return path + ": one side invalid"
		}
		return ""
	}
	if a.Type() != b.Type() {
		return path + ": type " + a.Type().String() + " vs " + b.Type().String()
	}
	switch a.Kind() {
	case reflect.Interface:
		if a.IsNil() || b.IsNil() {
			if a.IsNil() != b.IsNil() {
				return path + ": nil vs non-nil interface"
			}
			return ""
		}
		return Equal(a.Elem(), b.Elem(), path)
	case reflect.Ptr:
		if a.IsNil() || b.IsNil() {
			if a.IsNil() != b.IsNil() {
				return path + ": nil vs non-nil pointer"
			}
			return ""
		}
		switch x := a.Interface().(type) {
		case *tl.Int128:
			y := b.Interface().(*tl.Int128)
			if (x.Int == nil) != (y.Int == nil) || (x.Int != nil && x.Int.Cmp(y.Int) != 0) {
				return path + ": int128 differs"
			}
			return ""
		case *tl.Int256:
			y := b.Interface().(*tl.Int256)
			if (x.Int == nil) != (y.Int == nil) || (x.Int != nil && x.Int.Cmp(y.Int) != 0) {
				return path + ": int256 differs"
			}
			return ""
		}
		return Equal(a.Elem(), b.Elem(), path)
	case reflect.Struct:
		for i := 0; i < a.NumField(); i++ {
			if a.Type().Field(i).PkgPath != "" {
				continue
			}
			if d := Equal(a.Field(i), b.Field(i), path+"."+a.Type().Field(i).Name); d != "" {
				return d
			}
		}
		return ""
	case reflect.Slice:
		if a.Len() != b.Len() {
			return path + ": length " + strconv.Itoa(a.Len()) + " vs " + strconv.Itoa(b.Len())
		}
		for i := 0; i < a.Len(); i++ {
			if d := Equal(a.Index(i), b.Index(i), path+"["+strconv.Itoa(i)+"]"); d != "" {
				return d
			}
		}
		return ""
	case reflect.Float64:
		if math.Float64bits(a.Float()) != math.Float64bits(b.Float()) {
			return path + ": double differs"
		}
		return ""
	case reflect.String:
		if a.String() != b.String() {
			return path + ": string differs (len " + strconv.Itoa(a.Len()) + " vs " + strconv.Itoa(b.Len()) + ")"
		}
		return ""
	case reflect.Bool:
		if a.Bool() != b.Bool() {
			return path + ": bool differs"
		}
		return ""
	case reflect.Int32, reflect.Int64, reflect.Int:
		if a.Int() != b.Int() {
			return path + ": integer differs"
		}
		return ""
	case reflect.Uint32, reflect.Uint8:
		if a.Uint() != b.Uint() {
			return path + ": unsigned differs"
		}
		return ""
	}
	if !reflect.DeepEqual(a.Interface(), b.Interface()) {
		return path + ": differs"
	}
	return ""
}

// Shape is a cheap structural hash input: kinds and lengths along the value.
func Shape(v reflect.Value, depth int) string {
	if !v.IsValid() || depth > 3 {
		return "_"
	}
	switch v.Kind() {
	case reflect.Interface, reflect.Ptr:
		if v.IsNil() {
			return "n"
		}
		if v.Kind() == reflect.Interface {
			return v.Elem().Type().String() + Shape(v.Elem(), depth)
		}
		return Shape(v.Elem(), depth)
	case reflect.Struct:
		s := "{"
		for i := 0; i < v.NumField(); i++ {
			if v.Type().Field(i).PkgPath == "" {
				s += Shape(v.Field(i), depth+1)
			}
		}
		return s + "}"
	case reflect.Slice:
		s := "[" + strconv.Itoa(v.Len())
		if v.Type() != tBytes && v.Len() > 0 {
			s += Shape(v.Index(0), depth+1)
		}
		return s + "]"
	case reflect.String:
		return "s" + strconv.Itoa(v.Len())
	}
	if v.IsZero() {
		return "0"
	}
	return "x"
}
