// Package bridge turns schema-directed TL value trees into the library's Go values and compares Go
// values with TL value trees — purely positionally (i-th non-flags parameter <-> i-th struct field),
// using only the constructor registry (hook H1) to find the Go type of a constructor id.
package bridge

import (
	"bytes"
	"fmt"
	"math"
	"math/big"
	"reflect"

	"github.com/xelaj/mtproto/internal/encoding/tl"
	_ "github.com/xelaj/mtproto/internal/mtproto/objects"
	"github.com/xelaj/mtproto/telegram"
	ts "github.com/xelaj/mtproto/zverif/ref/tlschema"
)

var (
	Objects map[uint32]reflect.Type
	Enums   map[uint32]struct{}
)

// Wrappers: the hand-written generic request wrappers are sent but never decoded, so the library does
// not register them; the harness names their Go types explicitly (schema function name -> type).
var Wrappers = map[string]reflect.Type{
	"initConnection":          reflect.TypeOf(&telegram.InitConnectionParams{}),
	"invokeWithLayer":         reflect.TypeOf(&telegram.InvokeWithLayerParams{}),
	"invokeWithTakeout":       reflect.TypeOf(&telegram.InvokeWithTakeoutParams{}),
	"invokeAfterMsg":          reflect.TypeOf(&telegram.InvokeAfterMsgParams{}),
	"invokeAfterMsgs":         reflect.TypeOf(&telegram.InvokeAfterMsgsParams{}),
	"invokeWithoutUpdates":    reflect.TypeOf(&telegram.InvokeWithoutUpdatesParams{}),
	"invokeWithMessagesRange": reflect.TypeOf(&telegram.InvokeWithMessagesRangeParams{}),
}

func init() { Objects, Enums = tl.VerifRegistry() }

func goType(d *ts.Def) (reflect.Type, bool) {
	if t, ok := Objects[d.ID]; ok && d.HasID {
		return t, true
	}
	if t, ok := Wrappers[d.Name]; ok {
		return t, true
	}
	return nil, false
}

var (
	tInt128 = reflect.TypeOf(&tl.Int128{})
	tInt256 = reflect.TypeOf(&tl.Int256{})
	tBytes  = reflect.TypeOf([]byte{})
)

// Build returns a Go value for v assignable to slot.
func Build(v *ts.Value, slot reflect.Type) (reflect.Value, error) {
	switch v.Kind {
	case ts.KCon:
		typ, ok := goType(v.Def)
		if !ok {
			return reflect.Value{}, fmt.Errorf("%s#%08x: no registered Go type", v.Def.Name, v.Def.ID)
		}
		var out reflect.Value
		if typ.Kind() != reflect.Ptr {
			if typ.Kind() != reflect.Uint32 {
				return reflect.Value{}, fmt.Errorf("%s: registered type %v is neither pointer nor enum", v.Def.Name, typ)
			}
			out = reflect.ValueOf(v.Def.ID).Convert(typ)
		} else {
			if typ.Elem().Kind() != reflect.Struct {
				return reflect.Value{}, fmt.Errorf("%s: registered type %v is not a struct pointer (hand-written codec)", v.Def.Name, typ)
			}
			obj := reflect.New(typ.Elem())
			nf := v.Def.NonFlagParams()
			if obj.Elem().NumField() != len(nf) {
				return reflect.Value{}, fmt.Errorf("%s: Go struct %v has %d fields, schema has %d parameters", v.Def.Name, typ, obj.Elem().NumField(), len(nf))
			}
			fi := 0
			for i := range v.Def.Params {
				if v.Def.Params[i].IsFlagsWord() {
					continue
				}
				f := &v.Fields[i]
				if f.Kind != ts.KAbsent {
					sub, err := Build(f, typ.Elem().Field(fi).Type)
					if err != nil {
						return reflect.Value{}, fmt.Errorf("%s.%s: %w", v.Def.Name, v.Def.Params[i].Name, err)
					}
					obj.Elem().Field(fi).Set(sub)
				}
				fi++
			}
			out = obj
		}
		if slot == nil {
			return out, nil
		}
		if !out.Type().AssignableTo(slot) {
			return reflect.Value{}, fmt.Errorf("%s: Go type %v not assignable to %v", v.Def.Name, out.Type(), slot)
		}
		if slot.Kind() == reflect.Interface {
			w := reflect.New(slot).Elem()
			w.Set(out)
			return w, nil
		}
		return out, nil
	case ts.KVec:
		if slot.Kind() != reflect.Slice || slot == tBytes {
			return reflect.Value{}, fmt.Errorf("vector into %v", slot)
		}
		sl := reflect.MakeSlice(slot, len(v.Elems), len(v.Elems))
		for i := range v.Elems {
			e, err := Build(&v.Elems[i], slot.Elem())
			if err != nil {
				return reflect.Value{}, fmt.Errorf("[%d]: %w", i, err)
			}
			sl.Index(i).Set(e)
		}
		return sl, nil
	case ts.KInt:
		if slot.Kind() != reflect.Int32 {
			return reflect.Value{}, fmt.Errorf("int into %v", slot)
		}
		return reflect.ValueOf(int32(v.I)).Convert(slot), nil
	case ts.KLong:
		if slot.Kind() != reflect.Int64 {
			return reflect.Value{}, fmt.Errorf("long into %v", slot)
		}
		return reflect.ValueOf(v.I).Convert(slot), nil
	case ts.KDouble:
		if slot.Kind() != reflect.Float64 {
			return reflect.Value{}, fmt.Errorf("double into %v", slot)
		}
		return reflect.ValueOf(v.F).Convert(slot), nil
	case ts.KStr, ts.KBytes:
		if slot.Kind() == reflect.String {
			return reflect.ValueOf(string(v.B)).Convert(slot), nil
		}
		if slot == tBytes {
			b := make([]byte, len(v.B))
			copy(b, v.B)
			return reflect.ValueOf(b), nil
		}
		return reflect.Value{}, fmt.Errorf("string/bytes into %v", slot)
	case ts.KBool, ts.KTrue:
		if slot.Kind() != reflect.Bool {
			return reflect.Value{}, fmt.Errorf("bool into %v", slot)
		}
		return reflect.ValueOf(v.I != 0).Convert(slot), nil
	case ts.KI128:
		if slot != tInt128 {
			return reflect.Value{}, fmt.Errorf("int128 into %v", slot)
		}
		return reflect.ValueOf(&tl.Int128{Int: new(big.Int).SetBytes(v.B)}), nil
	case ts.KI256:
		if slot != tInt256 {
			return reflect.Value{}, fmt.Errorf("int256 into %v", slot)
		}
		return reflect.ValueOf(&tl.Int256{Int: new(big.Int).SetBytes(v.B)}), nil
	}
	return reflect.Value{}, fmt.Errorf("cannot build kind %d", v.Kind)
}

func isEmpty(g reflect.Value) bool {
	if !g.IsValid() {
		return true
	}
	switch g.Kind() {
	case reflect.Slice:
		return g.Len() == 0
	case reflect.Ptr, reflect.Interface:
		return g.IsNil()
	}
	return g.IsZero()
}

// Match compares a Go value with the TL value it should represent.
func Match(g reflect.Value, v *ts.Value) error {
	if v.Kind == ts.KAbsent {
		if !isEmpty(g) {
			return fmt.Errorf("absent field holds %v", g)
		}
		return nil
	}
	for g.IsValid() && g.Kind() == reflect.Interface {
		if g.IsNil() {
			return fmt.Errorf("nil interface where a value is expected")
		}
		g = g.Elem()
	}
	if !g.IsValid() {
		return fmt.Errorf("invalid value")
	}
	switch v.Kind {
	case ts.KCon:
		typ, ok := goType(v.Def)
		if !ok {
			return fmt.Errorf("%s: not registered", v.Def.Name)
		}
		if g.Type() != typ {
			return fmt.Errorf("%s: Go value is %v, want %v", v.Def.Name, g.Type(), typ)
		}
		if typ.Kind() == reflect.Uint32 {
			if uint32(g.Uint()) != v.Def.ID {
				return fmt.Errorf("%s: enum value %#x", v.Def.Name, g.Uint())
			}
			return nil
		}
		if g.IsNil() {
			return fmt.Errorf("%s: nil pointer", v.Def.Name)
		}
		st := g.Elem()
		nf := v.Def.NonFlagParams()
		if st.Kind() != reflect.Struct || st.NumField() != len(nf) {
			return fmt.Errorf("%s: layout differs", v.Def.Name)
		}
		fi := 0
		for i := range v.Def.Params {
			if v.Def.Params[i].IsFlagsWord() {
				continue
			}
			if err := Match(st.Field(fi), &v.Fields[i]); err != nil {
				return fmt.Errorf("%s.%s: %w", v.Def.Name, v.Def.Params[i].Name, err)
			}
			fi++
		}
		return nil
	case ts.KVec:
		if g.Kind() != reflect.Slice {
			return fmt.Errorf("want slice, got %v", g.Type())
		}
		if g.Len() != len(v.Elems) {
			return fmt.Errorf("vector of %d, want %d", g.Len(), len(v.Elems))
		}
		for i := range v.Elems {
			if err := Match(g.Index(i), &v.Elems[i]); err != nil {
				return fmt.Errorf("[%d]: %w", i, err)
			}
		}
		return nil
	case ts.KInt:
		if g.Kind() != reflect.Int32 || g.Int() != v.I {
			return fmt.Errorf("int %v, want %d", g, v.I)
		}
	case ts.KLong:
		if g.Kind() != reflect.Int64 || g.Int() != v.I {
			return fmt.Errorf("long %v, want %d", g, v.I)
		}
	case ts.KDouble:
		if g.Kind() != reflect.Float64 || math.Float64bits(g.Float()) != math.Float64bits(v.F) {
			return fmt.Errorf("double %v, want %v", g, v.F)
		}
	case ts.KStr, ts.KBytes:
		switch {
		case g.Kind() == reflect.String:
			if g.String() != string(v.B) {
				return fmt.Errorf("string of %d bytes, want %d", g.Len(), len(v.B))
			}
		case g.Type() == tBytes:
			if !bytes.Equal(g.Bytes(), v.B) {
				return fmt.Errorf("bytes of %d, want %d", g.Len(), len(v.B))
			}
		default:
			return fmt.Errorf("want string/bytes, got %v", g.Type())
		}
	case ts.KBool, ts.KTrue:
		if g.Kind() != reflect.Bool || g.Bool() != (v.I != 0) {
			return fmt.Errorf("bool %v, want %v", g, v.I != 0)
		}
	case ts.KI128, ts.KI256:
		var bi *big.Int
		switch x := g.Interface().(type) {
		case *tl.Int128:
			if x != nil {
				bi = x.Int
			}
		case *tl.Int256:
			if x != nil {
				bi = x.Int
			}
		}
		if bi == nil || bi.Cmp(new(big.Int).SetBytes(v.B)) != 0 {
			return fmt.Errorf("big integer differs")
		}
	case ts.KFlags:
	}
	return nil
}
