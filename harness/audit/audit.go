// Package audit compares one schema definition with the Go type registered for it, by reflection:
// constructor id three ways, positional field kinds, flag tags, position of the flags word.
// It is shared by C13 (the shipped layer) and C14 (freshly generated packages).
package audit

import (
	"fmt"
	"reflect"
	"regexp"
	"strconv"
	"strings"

	"github.com/xelaj/mtproto/internal/encoding/tl"
	ts "github.com/xelaj/mtproto/zverif/ref/tlschema"
)

var TObject = reflect.TypeOf((*tl.Object)(nil)).Elem()

type Registry map[uint32]reflect.Type

// KindOK says whether Go type g can be the translation of schema type t.
func KindOK(t *ts.TypeExpr, g reflect.Type, s *ts.Schema, reg Registry) (bool, string) {
	if t.Vector {
		if g.Kind() != reflect.Slice || g == reflect.TypeOf([]byte{}) {
			return false, "vector must be a slice"
		}
		return KindOK(t.Elem, g.Elem(), s, reg)
	}
	switch t.Name {
	case "int":
		return g.Kind() == reflect.Int32, "int must be int32"
	case "long":
		return g.Kind() == reflect.Int64, "long must be int64"
	case "double":
		return g.Kind() == reflect.Float64, "double must be float64"
	case "string":
		return g.Kind() == reflect.String, "string must be string"
	case "bytes":
		return g == reflect.TypeOf([]byte{}), "bytes must be []byte"
	case "Bool", "true":
		return g.Kind() == reflect.Bool, "Bool/true must be bool"
	case "int128":
		return g == reflect.TypeOf(&tl.Int128{}), "int128 must be *tl.Int128"
	case "int256":
		return g == reflect.TypeOf(&tl.Int256{}), "int256 must be *tl.Int256"
	case "Object", "!X", "X":
		return g == TObject, "Object/!X must be tl.Object"
	}
	cs := s.ByResult[t.Name]
	if t.Bare {
		if d := s.ByName[t.Name]; d != nil {
			cs = []*ts.Def{d}
		}
	}
	if len(cs) == 0 {
		return false, "schema type " + t.Name + " has no constructors"
	}
	var gts []reflect.Type
	for _, c := range cs {
		gt, ok := reg[c.ID]
		if !ok {
			return false, "constructor " + c.Name + " not registered"
		}
		gts = append(gts, gt)
	}
	switch g.Kind() {
	case reflect.Uint32: // enum: every constructor is a value of this very type
		for _, gt := range gts {
			if gt != g {
				return false, fmt.Sprintf("enum field type %v but constructor type %v", g, gt)
			}
		}
		return true, ""
	case reflect.Ptr:
		if len(gts) == 1 && gts[0] == g {
			return true, ""
		}
		return false, fmt.Sprintf("pointer field %v does not match the constructors of %s", g, t.Name)
	case reflect.Interface:
		if g == TObject {
			return false, "boxed type " + t.Name + " translated to the catch-all tl.Object"
		}
		for _, gt := range gts {
			if !gt.Implements(g) {
				return false, fmt.Sprintf("%v does not implement %v", gt, g)
			}
		}
		return true, ""
	}
	return false, fmt.Sprintf("boxed type %s translated to %v", t.Name, g)
}

var reTag = regexp.MustCompile(`^flag:(\d+)(,encoded_in_bitflags)?$`)

// Compare reports every disagreement between definition d and Go type gt through rep(kind, detail).
// It returns false when the type has a hand-written codec and only the id was compared.
func Compare(d *ts.Def, s *ts.Schema, gt reflect.Type, reg Registry, handCodec bool, rep func(kind, detail string)) {
	if gt.Kind() == reflect.Uint32 {
		if len(d.NonFlagParams()) != 0 {
			rep("layout", "registered as an enum value but the schema line has parameters")
		}
		if d.FlagsPos() >= 0 {
			rep("flags-position", "the schema line has a flags word (flags:#), but the constructor is an enumeration value: nothing can carry that word on the wire")
		}
		o := reflect.ValueOf(d.ID).Convert(gt).Interface().(tl.Object)
		if o.CRC() != d.ID {
			rep("id", fmt.Sprintf("CRC() %#08x, schema %#08x", o.CRC(), d.ID))
		}
		return
	}
	if gt.Kind() != reflect.Ptr || gt.Elem().Kind() != reflect.Struct {
		if !handCodec {
			rep("layout", fmt.Sprintf("registered type %v is not a struct pointer", gt))
		}
		return
	}
	obj := reflect.New(gt.Elem()).Interface().(tl.Object)
	if obj.CRC() != d.ID {
		rep("id", fmt.Sprintf("CRC() %#08x, schema says %#08x", obj.CRC(), d.ID))
	}
	if handCodec {
		return
	}
	nf := d.NonFlagParams()
	st := gt.Elem()
	if st.NumField() != len(nf) {
		rep("layout", fmt.Sprintf("%d struct fields, %d parameters", st.NumField(), len(nf)))
		return
	}
	for i, p := range nf {
		f := st.Field(i)
		if ok, why := KindOK(p.Type, f.Type, s, reg); !ok {
			rep("field-type", fmt.Sprintf("parameter %d %s:%s is field %s %v: %s", i, p.Name, p.Type, f.Name, f.Type, why))
		}
		// the field is known by the parameter's name: two same-typed fields in exchanged order decode and encode
		// without an error, into each other's place
		if norm(f.Name) != norm(p.Name) {
			rep("field-name", fmt.Sprintf("parameter %d is %s:%s in the schema, the struct field at that position is %s", i, p.Name, p.Type, f.Name))
		}
		tag := f.Tag.Get("tl")
		if p.FlagBit < 0 {
			if tag != "" {
				rep("flag-bit", fmt.Sprintf("unconditional parameter %s has tag %q", p.Name, tag))
			}
			continue
		}
		m := reTag.FindStringSubmatch(tag)
		if m == nil {
			rep("flag-bit", fmt.Sprintf("parameter %s:flags.%d has tag %q", p.Name, p.FlagBit, tag))
			continue
		}
		bit, _ := strconv.Atoi(m[1])
		if bit != p.FlagBit {
			rep("flag-bit", fmt.Sprintf("parameter %s is flags.%d in the schema, flag:%d in Go", p.Name, p.FlagBit, bit))
		}
		if (m[2] != "") != (p.Type.Name == "true") {
			rep("flag-bit", fmt.Sprintf("parameter %s:%s encoded_in_bitflags=%v", p.Name, p.Type, m[2] != ""))
		}
	}
	fp := d.FlagsPos()
	fg, has := obj.(tl.FlagIndexGetter)
	switch {
	case fp >= 0 && !has:
		rep("flags-position", "schema has flags:# but the type has no FlagIndex()")
	case fp < 0 && has:
		rep("flags-position", "type has FlagIndex() but the schema has no flags word")
	case fp >= 0 && fg.FlagIndex() != fp:
		rep("flags-position", fmt.Sprintf("FlagIndex() = %d, flags:# is parameter %d", fg.FlagIndex(), fp))
	}
}

func norm(name string) string {
	return strings.ToLower(strings.ReplaceAll(name, "_", ""))
}
