// Package tlschema is an independent reading of .tl schema text: parser, canonical-line CRC-32,
// a TL value tree, a schema-directed serialiser and deserialiser and a value generator.
// It shares no code with /repo (neither with tlparser nor with the tl codec).
package tlschema

import (
	"fmt"
	"hash/crc32"
	"regexp"
	"strconv"
	"strings"
)

type TypeExpr struct {
	Name    string    // "int","long","double","string","bytes","Bool","true","int128","int256","#","Object","!X" or a type / constructor name
	Vector  bool      // Vector<Elem> (boxed) or vector<Elem> (bare) — see BareVec
	BareVec bool      // lower-case "vector": no vector id on the wire
	Elem    *TypeExpr // for vectors
	Bare    bool      // %T or a lower-case constructor name: no constructor id on the wire
}

func (t *TypeExpr) String() string {
	if t.Vector {
		if t.BareVec {
			return "vector<" + t.Elem.String() + ">"
		}
		return "Vector<" + t.Elem.String() + ">"
	}
	if t.Bare {
		return "%" + t.Name
	}
	return t.Name
}

type Param struct {
	Name      string
	Type      *TypeExpr
	FlagField string // name of the flags word this param depends on ("" if unconditional)
	FlagBit   int    // -1 if unconditional
}

func (p *Param) IsFlagsWord() bool { return p.Type.Name == "#" && !p.Type.Vector }

type Def struct {
	Name     string // e.g. "inputPeerUser", "messages.getMessages"
	ID       uint32
	HasID    bool
	Params   []Param
	Result   *TypeExpr
	IsFunc   bool
	Line     string // the definition as written (without trailing ';')
	LineNo   int
	Generics []string // {X:Type}
}

// NonFlagParams returns params that are not the flags word itself.
func (d *Def) NonFlagParams() []*Param {
	var out []*Param
	for i := range d.Params {
		if !d.Params[i].IsFlagsWord() {
			out = append(out, &d.Params[i])
		}
	}
	return out
}

// FlagsPos: index of the flags word among all params (-1 if none).
func (d *Def) FlagsPos() int {
	for i := range d.Params {
		if d.Params[i].IsFlagsWord() {
			return i
		}
	}
	return -1
}

type Schema struct {
	Defs     []*Def
	ByID     map[uint32]*Def
	ByName   map[string]*Def
	ByResult map[string][]*Def // constructors (not functions) by result type name
	Skipped  []string          // lines not understood (for the self-validation report)
}

func (s *Schema) Merge(o *Schema) {
	for _, d := range o.Defs {
		if !d.HasID {
			continue // "message" of mtproto.tl is a bare-only helper; it would shadow the API constructor of the same name
		}
		s.add(d)
	}
}

func (s *Schema) add(d *Def) {
	s.Defs = append(s.Defs, d)
	if d.HasID {
		s.ByID[d.ID] = d
	}
	s.ByName[d.Name] = d
	if !d.IsFunc {
		s.ByResult[d.Result.Name] = append(s.ByResult[d.Result.Name], d)
	}
}

func NewSchema() *Schema {
	return &Schema{ByID: map[uint32]*Def{}, ByName: map[string]*Def{}, ByResult: map[string][]*Def{}}
}

var reHead = regexp.MustCompile(`^([A-Za-z_][A-Za-z0-9_.]*)(#[0-9a-fA-F]{1,8})?$`)

func parseType(s string) (*TypeExpr, error) {
	if s == "" {
		return nil, fmt.Errorf("empty type")
	}
	if strings.HasPrefix(s, "Vector<") && strings.HasSuffix(s, ">") {
		e, err := parseType(s[7 : len(s)-1])
		if err != nil {
			return nil, err
		}
		return &TypeExpr{Name: "Vector", Vector: true, Elem: e}, nil
	}
	if strings.HasPrefix(s, "vector<") && strings.HasSuffix(s, ">") {
		e, err := parseType(s[7 : len(s)-1])
		if err != nil {
			return nil, err
		}
		return &TypeExpr{Name: "vector", Vector: true, BareVec: true, Elem: e}, nil
	}
	if strings.HasPrefix(s, "%") {
		return &TypeExpr{Name: s[1:], Bare: true}, nil
	}
	if strings.ContainsAny(s, "<>? ") {
		return nil, fmt.Errorf("unsupported type %q", s)
	}
	return &TypeExpr{Name: s}, nil
}

// Parse reads .tl text. Lines it does not understand are collected in Skipped (built-ins like
// "int ? = Int;" and "vector {t:Type} # [ t ] = Vector t;" land there by design).
func Parse(text string) (*Schema, error) {
	s := NewSchema()
	isFunc := false
	for ln, raw := range strings.Split(text, "\n") {
		line := strings.TrimSpace(raw)
		if line == "" || strings.HasPrefix(line, "//") {
			continue
		}
		if line == "---functions---" {
			isFunc = true
			continue
		}
		if line == "---types---" {
			isFunc = false
			continue
		}
		if !strings.HasSuffix(line, ";") {
			s.Skipped = append(s.Skipped, line)
			continue
		}
		body := strings.TrimSpace(strings.TrimSuffix(line, ";"))
		toks := strings.Fields(body)
		eq := -1
		for i, t := range toks {
			if t == "=" {
				eq = i
			}
		}
		if eq < 1 || eq != len(toks)-2 {
			s.Skipped = append(s.Skipped, line)
			continue
		}
		m := reHead.FindStringSubmatch(toks[0])
		if m == nil {
			s.Skipped = append(s.Skipped, line)
			continue
		}
		d := &Def{Name: m[1], IsFunc: isFunc, Line: body, LineNo: ln + 1}
		if m[2] != "" {
			v, err := strconv.ParseUint(m[2][1:], 16, 32)
			if err != nil {
				return nil, fmt.Errorf("line %d: bad id", ln+1)
			}
			d.ID, d.HasID = uint32(v), true
		}
		res, err := parseType(toks[eq+1])
		if err != nil {
			s.Skipped = append(s.Skipped, line)
			continue
		}
		d.Result = res
		ok := true
		for _, t := range toks[1:eq] {
			if strings.HasPrefix(t, "{") && strings.HasSuffix(t, "}") {
				d.Generics = append(d.Generics, strings.SplitN(t[1:len(t)-1], ":", 2)[0])
				continue
			}
			i := strings.Index(t, ":")
			if i <= 0 {
				ok = false
				break
			}
			p := Param{Name: t[:i], FlagBit: -1}
			ts := t[i+1:]
			if q := strings.Index(ts, "?"); q > 0 {
				cond := ts[:q]
				dot := strings.LastIndex(cond, ".")
				if dot <= 0 {
					ok = false
					break
				}
				bit, err := strconv.Atoi(cond[dot+1:])
				if err != nil || bit < 0 || bit > 31 {
					ok = false
					break
				}
				p.FlagField, p.FlagBit = cond[:dot], bit
				ts = ts[q+1:]
			}
			te, err := parseType(ts)
			if err != nil {
				ok = false
				break
			}
			p.Type = te
			d.Params = append(d.Params, p)
		}
		if !ok || (!d.HasID && d.Name != "message") {
			s.Skipped = append(s.Skipped, line)
			continue
		}
		s.add(d)
	}
	return s, nil
}

var reTrueFlag = regexp.MustCompile(` \w+:flags\.\d+\?true`)

// CanonicalCRC computes the constructor id the TL language defines for a definition line.
func CanonicalCRC(line string, s *Schema) uint32 {
	r := line
	if i := strings.Index(r, "#"); i > 0 {
		// drop "#id" directly after the name
		if j := strings.IndexAny(r[i:], " "); j > 0 && i < strings.Index(r, " ") {
			r = r[:i] + r[i+j:]
		}
	}
	r = r + " "
	r = strings.ReplaceAll(r, ":bytes ", ":string ")
	r = strings.ReplaceAll(r, "?bytes ", "?string ")
	r = strings.TrimSuffix(r, " ")
	r = strings.ReplaceAll(r, "<", " ")
	r = strings.ReplaceAll(r, ">", "")
	r = strings.ReplaceAll(r, "{", "")
	r = strings.ReplaceAll(r, "}", "")
	r = reTrueFlag.ReplaceAllString(r, "")
	// %T is written as the name of T's single constructor
	if strings.Contains(r, "%") && s != nil {
		for typ, cs := range s.ByResult {
			if len(cs) == 1 {
				r = strings.ReplaceAll(r, "%"+typ, cs[0].Name)
			}
		}
	}
	return crc32.ChecksumIEEE([]byte(r))
}
