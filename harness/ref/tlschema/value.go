package tlschema

import (
	"bytes"
	"encoding/binary"
	"errors"
	"fmt"
	"math"
)

type Kind int

const (
	KAbsent Kind = iota // conditional field not present
	KInt
	KLong
	KDouble
	KStr
	KBytes
	KBool
	KTrue // a present `true` flag
	KI128
	KI256
	KVec
	KCon
	KFlags // the flags word (value computed by the serialiser; as read by the deserialiser)
)

type Value struct {
	Kind   Kind
	I      int64
	F      float64
	B      []byte // string / bytes / int128 / int256 (big-endian fixed width as on the wire)
	Def    *Def
	Fields []Value // one per Def.Params (incl. the flags word)
	Elems  []Value
}

const (
	IDVector   = 0x1cb5c415
	IDBoolTrue = 0x997275b5
	IDBoolFalse = 0xbc799737
	IDNull     = 0x56730bcc
	IDGzip     = 0x3072cfa1
)

var ErrTooLong = errors.New("string of 2^24 bytes or more cannot be serialised")

func putBytes(w *bytes.Buffer, b []byte) error {
	if len(b) >= 1<<24 {
		return ErrTooLong
	}
	n := 0
	if len(b) <= 253 {
		w.WriteByte(byte(len(b)))
		n = 1
	} else {
		w.Write([]byte{254, byte(len(b)), byte(len(b) >> 8), byte(len(b) >> 16)})
		n = 4
	}
	w.Write(b)
	n += len(b)
	for n%4 != 0 {
		w.WriteByte(0)
		n++
	}
	return nil
}

func u32(w *bytes.Buffer, v uint32) { var b [4]byte; binary.LittleEndian.PutUint32(b[:], v); w.Write(b[:]) }
func u64(w *bytes.Buffer, v uint64) { var b [8]byte; binary.LittleEndian.PutUint64(b[:], v); w.Write(b[:]) }

// FlagsWord computes the value of the flags word named field for a constructor value.
func FlagsWord(v *Value, field string) uint32 {
	var f uint32
	for i := range v.Def.Params {
		p := &v.Def.Params[i]
		if p.FlagBit >= 0 && p.FlagField == field && v.Fields[i].Kind != KAbsent {
			f |= 1 << uint(p.FlagBit)
		}
	}
	return f
}

// SerializeAs writes a value of the given type expression (boxed objects, vectors, Bool, ...).
func SerializeAs(v *Value, t *TypeExpr) ([]byte, error) {
	var w bytes.Buffer
	if err := putValue(&w, v, t); err != nil {
		return nil, err
	}
	return w.Bytes(), nil
}

// Serialize writes a constructor value boxed (with its id).
func Serialize(v *Value) ([]byte, error) {
	var w bytes.Buffer
	if err := putCon(&w, v, false); err != nil {
		return nil, err
	}
	return w.Bytes(), nil
}

func putCon(w *bytes.Buffer, v *Value, bare bool) error {
	if v.Kind != KCon || v.Def == nil {
		return fmt.Errorf("not a constructor value")
	}
	if !bare {
		if !v.Def.HasID {
			return fmt.Errorf("%s has no id", v.Def.Name)
		}
		u32(w, v.Def.ID)
	}
	for i := range v.Def.Params {
		p := &v.Def.Params[i]
		if p.IsFlagsWord() {
			u32(w, FlagsWord(v, p.Name))
			continue
		}
		f := &v.Fields[i]
		if f.Kind == KAbsent {
			if p.FlagBit < 0 {
				return fmt.Errorf("%s.%s: unconditional field absent", v.Def.Name, p.Name)
			}
			continue
		}
		if err := putValue(w, f, p.Type); err != nil {
			return fmt.Errorf("%s.%s: %w", v.Def.Name, p.Name, err)
		}
	}
	return nil
}

func putValue(w *bytes.Buffer, f *Value, t *TypeExpr) error {
	if t.Vector {
		if f.Kind != KVec {
			return fmt.Errorf("want vector")
		}
		if !t.BareVec {
			u32(w, IDVector)
		}
		u32(w, uint32(len(f.Elems)))
		for i := range f.Elems {
			if err := putValue(w, &f.Elems[i], t.Elem); err != nil {
				return err
			}
		}
		return nil
	}
	switch t.Name {
	case "int":
		u32(w, uint32(int32(f.I)))
	case "long":
		u64(w, uint64(f.I))
	case "double":
		u64(w, math.Float64bits(f.F))
	case "string", "bytes":
		return putBytes(w, f.B)
	case "int128", "int256":
		w.Write(f.B)
	case "Bool":
		if f.I != 0 {
			u32(w, IDBoolTrue)
		} else {
			u32(w, IDBoolFalse)
		}
	case "true":
		// encoded in the flags word only
	default:
		return putCon(w, f, t.Bare)
	}
	return nil
}

// ---------------------------------------------------------------------------------------------
// Deserialiser

type Reader struct {
	B   []byte
	Pos int
}

func (r *Reader) need(n int) error {
	if n < 0 || r.Pos+n > len(r.B) {
		return fmt.Errorf("truncated at %d (+%d of %d)", r.Pos, n, len(r.B))
	}
	return nil
}
func (r *Reader) U32() (uint32, error) {
	if err := r.need(4); err != nil {
		return 0, err
	}
	v := binary.LittleEndian.Uint32(r.B[r.Pos:])
	r.Pos += 4
	return v, nil
}
func (r *Reader) U64() (uint64, error) {
	if err := r.need(8); err != nil {
		return 0, err
	}
	v := binary.LittleEndian.Uint64(r.B[r.Pos:])
	r.Pos += 8
	return v, nil
}
func (r *Reader) Raw(n int) ([]byte, error) {
	if err := r.need(n); err != nil {
		return nil, err
	}
	b := append([]byte{}, r.B[r.Pos:r.Pos+n]...)
	r.Pos += n
	return b, nil
}
func (r *Reader) Bytes() ([]byte, error) {
	if err := r.need(1); err != nil {
		return nil, err
	}
	n := int(r.B[r.Pos])
	hdr := 1
	if n == 254 {
		if err := r.need(4); err != nil {
			return nil, err
		}
		n = int(r.B[r.Pos+1]) | int(r.B[r.Pos+2])<<8 | int(r.B[r.Pos+3])<<16
		hdr = 4
	} else if n == 255 {
		return nil, fmt.Errorf("bad string header 255")
	}
	r.Pos += hdr
	b, err := r.Raw(n)
	if err != nil {
		return nil, err
	}
	for (hdr+n)%4 != 0 {
		if err := r.need(1); err != nil {
			return nil, err
		}
		r.Pos++
		n++
	}
	return b, nil
}

// ReadBoxed reads id + fields of any constructor/function known to the schema.
func (s *Schema) ReadBoxed(r *Reader) (*Value, error) {
	id, err := r.U32()
	if err != nil {
		return nil, err
	}
	d := s.ByID[id]
	if d == nil {
		return nil, fmt.Errorf("unknown constructor id %#08x at %d", id, r.Pos-4)
	}
	return s.readFields(r, d)
}

func (s *Schema) readFields(r *Reader, d *Def) (*Value, error) {
	v := &Value{Kind: KCon, Def: d, Fields: make([]Value, len(d.Params))}
	flags := map[string]uint32{}
	for i := range d.Params {
		p := &d.Params[i]
		if p.IsFlagsWord() {
			f, err := r.U32()
			if err != nil {
				return nil, err
			}
			flags[p.Name] = f
			v.Fields[i] = Value{Kind: KFlags, I: int64(f)}
			continue
		}
		if p.FlagBit >= 0 && flags[p.FlagField]&(1<<uint(p.FlagBit)) == 0 {
			continue
		}
		f, err := s.readValue(r, p.Type)
		if err != nil {
			return nil, fmt.Errorf("%s.%s: %w", d.Name, p.Name, err)
		}
		v.Fields[i] = *f
	}
	return v, nil
}

func (s *Schema) readValue(r *Reader, t *TypeExpr) (*Value, error) {
	if t.Vector {
		if !t.BareVec {
			id, err := r.U32()
			if err != nil {
				return nil, err
			}
			if id != IDVector {
				return nil, fmt.Errorf("want vector id, got %#08x", id)
			}
		}
		n, err := r.U32()
		if err != nil {
			return nil, err
		}
		if int(n) > len(r.B)-r.Pos {
			return nil, fmt.Errorf("vector count %d exceeds the data", n)
		}
		v := &Value{Kind: KVec, Elems: make([]Value, 0, n)}
		for i := uint32(0); i < n; i++ {
			e, err := s.readValue(r, t.Elem)
			if err != nil {
				return nil, err
			}
			v.Elems = append(v.Elems, *e)
		}
		return v, nil
	}
	switch t.Name {
	case "int":
		x, err := r.U32()
		return &Value{Kind: KInt, I: int64(int32(x))}, err
	case "long":
		x, err := r.U64()
		return &Value{Kind: KLong, I: int64(x)}, err
	case "double":
		x, err := r.U64()
		return &Value{Kind: KDouble, F: math.Float64frombits(x)}, err
	case "string":
		b, err := r.Bytes()
		return &Value{Kind: KStr, B: b}, err
	case "bytes":
		b, err := r.Bytes()
		return &Value{Kind: KBytes, B: b}, err
	case "int128":
		b, err := r.Raw(16)
		return &Value{Kind: KI128, B: b}, err
	case "int256":
		b, err := r.Raw(32)
		return &Value{Kind: KI256, B: b}, err
	case "Bool":
		x, err := r.U32()
		if err != nil {
			return nil, err
		}
		switch x {
		case IDBoolTrue:
			return &Value{Kind: KBool, I: 1}, nil
		case IDBoolFalse:
			return &Value{Kind: KBool, I: 0}, nil
		}
		return nil, fmt.Errorf("want Bool, got %#08x", x)
	case "true":
		return &Value{Kind: KTrue, I: 1}, nil
	}
	if t.Bare {
		cs := s.ByResult[t.Name]
		if d := s.ByName[t.Name]; d != nil && !d.IsFunc {
			return s.readFields(r, d)
		}
		if len(cs) == 1 {
			return s.readFields(r, cs[0])
		}
		return nil, fmt.Errorf("bare type %s is ambiguous", t.Name)
	}
	return s.ReadBoxed(r)
}
