package tlschema

import (
	"math/rand"
	"os"
	"reflect"
	"testing"
)

func TestShipped(t *testing.T) {
	for _, f := range []string{"/repo/schemes/api_121.tl", "/repo/schemes/mtproto.tl"} {
		b, err := os.ReadFile(f)
		if err != nil {
			t.Skip(err)
		}
		s, err := Parse(string(b))
		if err != nil {
			t.Fatal(err)
		}
		bad := 0
		n := 0
		for _, d := range s.Defs {
			if !d.HasID {
				continue
			}
			n++
			if c := CanonicalCRC(d.Line, s); c != d.ID {
				bad++
				t.Logf("%s: crc %08x id %08x: %s", f, c, d.ID, d.Line)
			}
		}
		t.Logf("%s: %d defs, %d crc mismatches, %d skipped lines: %v", f, n, bad, len(s.Skipped), s.Skipped)
		if bad*100 > n {
			t.Fatalf("too many mismatches")
		}
		// round trip of generated values through the reference serialiser and deserialiser
		r := rand.New(rand.NewSource(1))
		for _, d := range s.Defs {
			if !d.HasID || len(d.Generics) > 0 || d.Name == "msg_container" || d.Name == "msg_copy" || d.Name == "future_salts" {
				continue
			}
			for k := 0; k < 5; k++ {
				v := s.Gen(d, &GenOpts{R: r, MaxDepth: 3, ForceStrLen: -1}, 0)
				b, err := Serialize(v)
				if err != nil {
					t.Fatalf("%s: %v", d.Name, err)
				}
				rd := &Reader{B: b}
				w, err := s.ReadBoxed(rd)
				if err != nil || rd.Pos != len(b) {
					t.Fatalf("%s: read back: %v pos %d/%d", d.Name, err, rd.Pos, len(b))
				}
				b2, _ := Serialize(w)
				if !reflect.DeepEqual(b, b2) {
					t.Fatalf("%s: reserialisation differs", d.Name)
				}
			}
		}
	}
}
