package tlschema

import (
	"math"
	"math/rand"
	"sort"
)

// Costs: minimal nesting depth needed to build a value of each type / definition.
type Costs struct {
	Def  map[*Def]int
	Type map[string]int
}

func isPrim(n string) bool {
	switch n {
	case "int", "long", "double", "string", "bytes", "Bool", "true", "int128", "int256", "#":
		return true
	}
	return false
}

func (s *Schema) ComputeCosts() *Costs {
	c := &Costs{Def: map[*Def]int{}, Type: map[string]int{}}
	const inf = 1 << 20
	for _, d := range s.Defs {
		c.Def[d] = inf
	}
	for t := range s.ByResult {
		c.Type[t] = inf
	}
	typeCost := func(t *TypeExpr) int {
		if t.Vector || isPrim(t.Name) {
			return 0
		}
		if t.Name == "Object" || t.Name == "!X" || t.Name == "X" {
			return 1
		}
		if t.Bare {
			if d := s.ByName[t.Name]; d != nil {
				return c.Def[d]
			}
		}
		if v, ok := c.Type[t.Name]; ok {
			return v
		}
		return inf
	}
	for changed := true; changed; {
		changed = false
		for _, d := range s.Defs {
			m := 0
			for i := range d.Params {
				p := &d.Params[i]
				if p.FlagBit >= 0 {
					continue
				}
				if tc := typeCost(p.Type); tc > m {
					m = tc
				}
			}
			if m+1 < c.Def[d] {
				c.Def[d] = m + 1
				changed = true
			}
			if !d.IsFunc && c.Def[d] < c.Type[d.Result.Name] {
				c.Type[d.Result.Name] = c.Def[d]
				changed = true
			}
		}
	}
	return c
}

type GenOpts struct {
	R        *rand.Rand
	MaxDepth int
	// Presence, if non-nil, decides the top-level definition's groups: key = flag bit.
	Presence map[int]bool
	// StrLens is the pool of string/bytes lengths; nil => default boundary pool.
	StrLens []int
	VecLens []int
	Costs   *Costs
	// ForceStrLen, if >= 0, is used for the first string/bytes field met (then reset to -1).
	ForceStrLen int
	Simple      bool // small values everywhere (used for big fan-outs)
	// ForceVecLen, if > 0, is the length of the first vector met (then reset); its elements are generated at
	// the depth limit (cheapest constructors), so that a vector of hundreds of siblings stays small.
	ForceVecLen int
}

var DefaultStrLens = []int{0, 0, 1, 2, 3, 4, 5, 7, 8, 11, 100, 252, 253, 254, 255, 256, 257, 1000}
var DefaultVecLens = []int{0, 0, 1, 1, 2, 3, 7}
var intPool = []int64{0, 1, -1, 2, 127, 128, 255, 256, 65535, 65536, math.MaxInt32, math.MinInt32, 0x01020304, -0x01020304}
var longPool = []int64{0, 1, -1, 255, 256, math.MaxInt32, math.MinInt32, 1 << 32, math.MaxInt64, math.MinInt64, 0x0102030405060708}
var dblPool = []float64{0, 1, -1, 1.5, math.MaxFloat64, math.SmallestNonzeroFloat64, math.Inf(1), math.Inf(-1), math.Pi, -2.5e-300}

func (o *GenOpts) strLen() int {
	if o.ForceStrLen >= 0 {
		n := o.ForceStrLen
		o.ForceStrLen = -1
		return n
	}
	p := o.StrLens
	if p == nil {
		p = DefaultStrLens
	}
	if o.Simple {
		return o.R.Intn(6)
	}
	return p[o.R.Intn(len(p))]
}

func (o *GenOpts) vecLen(depth int) int {
	p := o.VecLens
	if p == nil {
		p = DefaultVecLens
	}
	if depth >= o.MaxDepth {
		return 0
	}
	if o.Simple {
		return o.R.Intn(3)
	}
	return p[o.R.Intn(len(p))]
}

func (o *GenOpts) bytesOf(n int) []byte {
	b := make([]byte, n)
	if n <= 4096 {
		o.R.Read(b)
	} else {
		for i := range b {
			b[i] = byte(i*131 + n)
		}
	}
	return b
}

// GoZero says whether a present TL value is the zero value of its Go representation
// (so that, alone in its flag group, the Go API cannot express "present").
func GoZero(v *Value) bool {
	switch v.Kind {
	case KInt, KLong, KBool:
		return v.I == 0
	case KDouble:
		return v.F == 0
	case KStr:
		return len(v.B) == 0
	case KCon:
		return v.Def != nil && v.Def.HasID && v.Def.ID == 0
	}
	return false
}

func (s *Schema) Gen(d *Def, o *GenOpts, depth int) *Value {
	if o.Costs == nil {
		o.Costs = s.ComputeCosts()
	}
	v := &Value{Kind: KCon, Def: d, Fields: make([]Value, len(d.Params))}
	// decide groups
	type gk struct {
		f string
		b int
	}
	groups := map[gk]bool{}
	var order []gk
	for i := range d.Params {
		p := &d.Params[i]
		if p.FlagBit >= 0 {
			k := gk{p.FlagField, p.FlagBit}
			if _, ok := groups[k]; !ok {
				order = append(order, k)
				present := false
				switch {
				case depth == 0 && o.Presence != nil:
					present = o.Presence[p.FlagBit]
				case depth >= o.MaxDepth:
					present = false
				default:
					present = o.R.Intn(2) == 0
				}
				groups[k] = present
			}
		}
	}
	for i := range d.Params {
		p := &d.Params[i]
		if p.IsFlagsWord() {
			v.Fields[i] = Value{Kind: KFlags}
			continue
		}
		if p.FlagBit >= 0 && !groups[gk{p.FlagField, p.FlagBit}] {
			continue
		}
		v.Fields[i] = *s.genType(p.Type, o, depth+1)
	}
	// a present group must have at least one member the Go API sees as non-zero
	for _, k := range order {
		if !groups[k] {
			continue
		}
		allZero := true
		first := -1
		for i := range d.Params {
			p := &d.Params[i]
			if p.FlagBit == k.b && p.FlagField == k.f {
				if first < 0 {
					first = i
				}
				if !GoZero(&v.Fields[i]) {
					allZero = false
				}
			}
		}
		if allZero && first >= 0 {
			f := &v.Fields[first]
			switch f.Kind {
			case KInt, KLong:
				f.I = 1 + int64(o.R.Intn(100))
			case KBool:
				f.I = 1
			case KDouble:
				f.F = 0.5
			case KStr:
				f.B = []byte{'x'}
			}
		}
	}
	for i := range v.Fields {
		if v.Fields[i].Kind == KFlags {
			v.Fields[i].I = int64(FlagsWord(v, d.Params[i].Name))
		}
	}
	return v
}

func (s *Schema) pickCon(typ string, o *GenOpts, depth int) *Def {
	cs := s.ByResult[typ]
	if len(cs) == 0 {
		return nil
	}
	if depth >= o.MaxDepth {
		best := cs[0]
		for _, c := range cs {
			if o.Costs.Def[c] < o.Costs.Def[best] {
				best = c
			}
		}
		return best
	}
	// prefer constructors that can still be completed within the remaining depth
	var ok []*Def
	for _, c := range cs {
		if o.Costs.Def[c] <= o.MaxDepth-depth+2 {
			ok = append(ok, c)
		}
	}
	if len(ok) == 0 {
		ok = cs
	}
	return ok[o.R.Intn(len(ok))]
}

// GenType generates a value of a type expression (used for results of functions).
func (s *Schema) GenType(t *TypeExpr, o *GenOpts) *Value {
	if o.Costs == nil {
		o.Costs = s.ComputeCosts()
	}
	return s.genType(t, o, 1)
}

func (s *Schema) genType(t *TypeExpr, o *GenOpts, depth int) *Value {
	if t.Vector {
		if o.ForceVecLen > 0 {
			n := o.ForceVecLen
			o.ForceVecLen = 0
			v := &Value{Kind: KVec, Elems: make([]Value, 0, n)}
			sub := *o
			sub.Simple = true
			for i := 0; i < n; i++ {
				d := depth + 1
				if d < o.MaxDepth {
					d = o.MaxDepth
				}
				v.Elems = append(v.Elems, *s.genType(t.Elem, &sub, d))
			}
			return v
		}
		n := o.vecLen(depth)
		v := &Value{Kind: KVec, Elems: make([]Value, 0, n)}
		for i := 0; i < n; i++ {
			v.Elems = append(v.Elems, *s.genType(t.Elem, o, depth+1))
		}
		return v
	}
	r := o.R
	switch t.Name {
	case "int":
		if r.Intn(2) == 0 {
			return &Value{Kind: KInt, I: intPool[r.Intn(len(intPool))]}
		}
		return &Value{Kind: KInt, I: int64(int32(r.Uint32()))}
	case "long":
		if r.Intn(2) == 0 {
			return &Value{Kind: KLong, I: longPool[r.Intn(len(longPool))]}
		}
		return &Value{Kind: KLong, I: int64(r.Uint64())}
	case "double":
		if r.Intn(2) == 0 {
			return &Value{Kind: KDouble, F: dblPool[r.Intn(len(dblPool))]}
		}
		f := math.Float64frombits(r.Uint64())
		if f != f {
			f = 12345.678
		}
		return &Value{Kind: KDouble, F: f}
	case "string":
		return &Value{Kind: KStr, B: o.bytesOf(o.strLen())}
	case "bytes":
		return &Value{Kind: KBytes, B: o.bytesOf(o.strLen())}
	case "int128", "int256":
		n := 16
		k := KI128
		if t.Name == "int256" {
			n, k = 32, KI256
		}
		b := o.bytesOf(n)
		for z := r.Intn(4); z > 0; z-- { // 0..3 leading zero bytes
			b[z-1] = 0
		}
		return &Value{Kind: k, B: b}
	case "Bool":
		return &Value{Kind: KBool, I: int64(r.Intn(2))}
	case "true":
		return &Value{Kind: KTrue, I: 1}
	case "Object", "!X", "X":
		// any simple boxed constructor
		names := []string{"inputPeerSelf", "inputUserSelf", "help.getConfig", "inputPeerEmpty"}
		sort.Strings(names)
		for _, n := range names {
			if d := s.ByName[n]; d != nil {
				return s.Gen(d, o, depth)
			}
		}
	}
	if t.Bare {
		if d := s.ByName[t.Name]; d != nil {
			return s.Gen(d, o, depth)
		}
	}
	d := s.pickCon(t.Name, o, depth)
	if d == nil {
		if dd := s.ByName[t.Name]; dd != nil {
			return s.Gen(dd, o, depth)
		}
		panic("tlschema: no constructor for type " + t.Name)
	}
	return s.Gen(d, o, depth)
}

// GroupBits lists the distinct flag bits of a definition, in order of first appearance.
func (d *Def) GroupBits() []int {
	seen := map[int]bool{}
	var out []int
	for i := range d.Params {
		if b := d.Params[i].FlagBit; b >= 0 && !seen[b] {
			seen[b] = true
			out = append(out, b)
		}
	}
	return out
}
