package mtp

import (
	"encoding/binary"
	"errors"
	"io"
)

var AnnounceAbridged = []byte{0xef}
var AnnounceIntermediate = []byte{0xee, 0xee, 0xee, 0xee}

// Frame returns the wire bytes of one message in the given mode ("abridged" / "intermediate"),
// without the announcement.
func Frame(mode string, msg []byte) ([]byte, error) {
	switch mode {
	case "abridged":
		if len(msg)%4 != 0 {
			return nil, errors.New("abridged: length not a multiple of 4")
		}
		w := len(msg) / 4
		if w >= 1<<24 {
			return nil, errors.New("abridged: too long")
		}
		var h []byte
		if w < 127 {
			h = []byte{byte(w)}
		} else {
			h = []byte{0x7f, byte(w), byte(w >> 8), byte(w >> 16)}
		}
		return append(h, msg...), nil
	case "intermediate":
		h := make([]byte, 4)
		binary.LittleEndian.PutUint32(h, uint32(len(msg)))
		return append(h, msg...), nil
	}
	return nil, errors.New("unknown mode")
}

// ReadFrame reads one frame from r (which may return short reads).
func ReadFrame(mode string, r io.Reader) ([]byte, error) {
	switch mode {
	case "abridged":
		var b [4]byte
		if _, err := io.ReadFull(r, b[:1]); err != nil {
			return nil, err
		}
		n := int(b[0])
		if b[0] == 0x7f {
			if _, err := io.ReadFull(r, b[:3]); err != nil {
				return nil, err
			}
			n = int(b[0]) | int(b[1])<<8 | int(b[2])<<16
		}
		msg := make([]byte, n*4)
		if _, err := io.ReadFull(r, msg); err != nil {
			return nil, err
		}
		return msg, nil
	case "intermediate":
		var b [4]byte
		if _, err := io.ReadFull(r, b[:]); err != nil {
			return nil, err
		}
		n := binary.LittleEndian.Uint32(b[:])
		if n > 1<<26 {
			return nil, errors.New("intermediate: frame too large")
		}
		msg := make([]byte, n)
		if _, err := io.ReadFull(r, msg); err != nil {
			return nil, err
		}
		return msg, nil
	}
	return nil, errors.New("unknown mode")
}

// DetectMode reads the announcement.
func DetectMode(r io.Reader) (string, error) {
	var b [4]byte
	if _, err := io.ReadFull(r, b[:1]); err != nil {
		return "", err
	}
	if b[0] == 0xef {
		return "abridged", nil
	}
	if _, err := io.ReadFull(r, b[1:]); err != nil {
		return "", err
	}
	if b == [4]byte{0xee, 0xee, 0xee, 0xee} {
		return "intermediate", nil
	}
	return "", errors.New("unknown transport announcement")
}
