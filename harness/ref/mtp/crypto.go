// Package mtp is an independent implementation of the MTProto 1.0 pieces the properties talk about,
// written from the public documentation (core.telegram.org/mtproto): AES-256-IGE, key derivation,
// message envelope, transports, key-exchange helpers. It shares no code with /repo.
package mtp

import (
	"bytes"
	"crypto/aes"
	"crypto/sha1"
	"encoding/binary"
	"errors"
	"fmt"
	"math/big"
)

func sha(parts ...[]byte) []byte {
	h := sha1.New()
	for _, p := range parts {
		h.Write(p)
	}
	return h.Sum(nil)
}

// IGEEncrypt: c_i = AES_k(p_i xor c_{i-1}) xor p_{i-1}; iv = c_0 | p_0 (32 bytes).
func IGEEncrypt(key, iv, plain []byte) ([]byte, error) {
	if len(plain) == 0 || len(plain)%16 != 0 {
		return nil, errors.New("ige: length must be a positive multiple of 16")
	}
	if (len(key) != 32 && len(key) != 16) || len(iv) != 32 {
		return nil, errors.New("ige: key and iv must be 32 bytes")
	}
	blk, err := aes.NewCipher(key)
	if err != nil {
		return nil, err
	}
	out := make([]byte, len(plain))
	cPrev := append([]byte{}, iv[:16]...)
	pPrev := append([]byte{}, iv[16:]...)
	var t [16]byte
	for i := 0; i < len(plain); i += 16 {
		for j := 0; j < 16; j++ {
			t[j] = plain[i+j] ^ cPrev[j]
		}
		blk.Encrypt(t[:], t[:])
		for j := 0; j < 16; j++ {
			out[i+j] = t[j] ^ pPrev[j]
		}
		copy(cPrev, out[i:i+16])
		copy(pPrev, plain[i:i+16])
	}
	return out, nil
}

// IGEDecrypt: p_i = AES_k^-1(c_i xor p_{i-1}) xor c_{i-1}.
func IGEDecrypt(key, iv, ciph []byte) ([]byte, error) {
	if len(ciph) == 0 || len(ciph)%16 != 0 {
		return nil, errors.New("ige: length must be a positive multiple of 16")
	}
	if (len(key) != 32 && len(key) != 16) || len(iv) != 32 {
		return nil, errors.New("ige: key and iv must be 32 bytes")
	}
	blk, err := aes.NewCipher(key)
	if err != nil {
		return nil, err
	}
	out := make([]byte, len(ciph))
	cPrev := append([]byte{}, iv[:16]...)
	pPrev := append([]byte{}, iv[16:]...)
	var t [16]byte
	for i := 0; i < len(ciph); i += 16 {
		for j := 0; j < 16; j++ {
			t[j] = ciph[i+j] ^ pPrev[j]
		}
		blk.Decrypt(t[:], t[:])
		for j := 0; j < 16; j++ {
			out[i+j] = t[j] ^ cPrev[j]
		}
		copy(cPrev, ciph[i:i+16])
		copy(pPrev, out[i:i+16])
	}
	return out, nil
}

// MsgKey = substr(SHA1(plaintext), 4, 16)
func MsgKey(plain []byte) []byte { return sha(plain)[4:20] }

// AuthKeyID = lower 64 bits of SHA1(auth_key)
func AuthKeyID(key []byte) []byte { return sha(key)[12:20] }

// KDF of MTProto 1.0; x = 0 for client->server, 8 for server->client.
func KDF(authKey, msgKey []byte, x int) (key, iv []byte) {
	a := sha(msgKey, authKey[x:x+32])
	b := sha(authKey[32+x:48+x], msgKey, authKey[48+x:64+x])
	c := sha(authKey[64+x:96+x], msgKey)
	d := sha(msgKey, authKey[96+x:128+x])
	key = append(append(append([]byte{}, a[0:8]...), b[8:20]...), c[4:16]...)
	iv = append(append(append(append([]byte{}, a[8:20]...), b[0:8]...), c[16:20]...), d[0:8]...)
	return
}

type Inner struct {
	Salt    int64
	Session int64
	MsgID   int64
	SeqNo   int32
	Body    []byte
	PadLen  int
}

// Seal builds an encrypted packet: direction x (0 client->server, 8 server->client), padding bytes given.
func Seal(authKey []byte, in Inner, x int, padding []byte) []byte {
	return SealDeclared(authKey, in, x, padding, int32(len(in.Body)), nil)
}

// SealDeclared lets an attacker who holds the key declare any length; msgKeyOver, if non-nil, is the
// byte string the msg_key is computed over (default: header+body without padding).
func SealDeclared(authKey []byte, in Inner, x int, padding []byte, declared int32, msgKeyOver func(plainNoPad []byte, padded []byte) []byte) []byte {
	var p bytes.Buffer
	binary.Write(&p, binary.LittleEndian, in.Salt)
	binary.Write(&p, binary.LittleEndian, in.Session)
	binary.Write(&p, binary.LittleEndian, in.MsgID)
	binary.Write(&p, binary.LittleEndian, in.SeqNo)
	binary.Write(&p, binary.LittleEndian, declared)
	p.Write(in.Body)
	noPad := append([]byte{}, p.Bytes()...)
	p.Write(padding)
	padded := p.Bytes()
	over := noPad
	if msgKeyOver != nil {
		over = msgKeyOver(noPad, padded)
	}
	mk := MsgKey(over)
	k, iv := KDF(authKey, mk, x)
	enc, err := IGEEncrypt(k, iv, padded)
	if err != nil {
		panic(fmt.Sprintf("ref seal: %v (len %d)", err, len(padded)))
	}
	out := append([]byte{}, AuthKeyID(authKey)...)
	out = append(out, mk...)
	return append(out, enc...)
}

// Open decrypts and validates a packet as a conformant peer does.
func Open(authKey, pkt []byte, x int) (*Inner, error) {
	if len(pkt) < 24+32 {
		return nil, errors.New("packet too short")
	}
	if !bytes.Equal(pkt[:8], AuthKeyID(authKey)) {
		return nil, errors.New("auth_key_id mismatch")
	}
	mk := pkt[8:24]
	enc := pkt[24:]
	if len(enc)%16 != 0 {
		return nil, errors.New("ciphertext not a multiple of 16")
	}
	k, iv := KDF(authKey, mk, x)
	plain, err := IGEDecrypt(k, iv, enc)
	if err != nil {
		return nil, err
	}
	in := &Inner{}
	in.Salt = int64(binary.LittleEndian.Uint64(plain[0:]))
	in.Session = int64(binary.LittleEndian.Uint64(plain[8:]))
	in.MsgID = int64(binary.LittleEndian.Uint64(plain[16:]))
	in.SeqNo = int32(binary.LittleEndian.Uint32(plain[24:]))
	n := int32(binary.LittleEndian.Uint32(plain[28:]))
	if n < 0 || int(n) > len(plain)-32 {
		return nil, fmt.Errorf("declared length %d outside the decrypted data (%d)", n, len(plain)-32)
	}
	in.PadLen = len(plain) - 32 - int(n)
	if in.PadLen > 15 {
		return nil, fmt.Errorf("padding %d bytes (must be < 16)", in.PadLen)
	}
	if !bytes.Equal(MsgKey(plain[:32+int(n)]), mk) {
		return nil, errors.New("msg_key mismatch")
	}
	in.Body = append([]byte{}, plain[32:32+int(n)]...)
	return in, nil
}

// Plain (unencrypted) envelope: auth_key_id = 0, msg_id, length, body.
func SealPlain(msgID int64, body []byte) []byte {
	var p bytes.Buffer
	binary.Write(&p, binary.LittleEndian, int64(0))
	binary.Write(&p, binary.LittleEndian, msgID)
	binary.Write(&p, binary.LittleEndian, int32(len(body)))
	p.Write(body)
	return p.Bytes()
}

func OpenPlain(pkt []byte) (msgID int64, body []byte, err error) {
	if len(pkt) < 20 {
		return 0, nil, errors.New("plain packet too short")
	}
	if binary.LittleEndian.Uint64(pkt) != 0 {
		return 0, nil, errors.New("plain packet with non-zero key id")
	}
	msgID = int64(binary.LittleEndian.Uint64(pkt[8:]))
	n := int32(binary.LittleEndian.Uint32(pkt[16:]))
	if int(n) != len(pkt)-20 {
		return 0, nil, fmt.Errorf("plain packet declares %d bytes, carries %d", n, len(pkt)-20)
	}
	return msgID, pkt[20:], nil
}

// TempKeys derives tmp_aes_key / tmp_aes_iv from new_nonce (32 bytes) and server_nonce (16 bytes).
func TempKeys(newNonce, serverNonce []byte) (key, iv []byte) {
	h1 := sha(newNonce, serverNonce)
	h2 := sha(serverNonce, newNonce)
	h3 := sha(newNonce, newNonce)
	key = append(append([]byte{}, h1...), h2[:12]...)
	iv = append(append(append([]byte{}, h2[12:20]...), h3...), newNonce[:4]...)
	return
}

// SealTemp: IGE(SHA1(data) | data | padding) under the temp keys. padding length must make it block-aligned.
func SealTemp(newNonce, serverNonce, data, padding []byte) ([]byte, error) {
	k, iv := TempKeys(newNonce, serverNonce)
	p := append(append(sha(data), data...), padding...)
	return IGEEncrypt(k, iv, p)
}

// OpenTemp decrypts and finds the payload by its SHA-1 prefix, allowing 0..15 padding bytes.
func OpenTemp(newNonce, serverNonce, enc []byte) (data []byte, pad int, err error) {
	k, iv := TempKeys(newNonce, serverNonce)
	p, err := IGEDecrypt(k, iv, enc)
	if err != nil {
		return nil, 0, err
	}
	if len(p) < 20 {
		return nil, 0, errors.New("temp: too short")
	}
	for pad = 0; pad <= 15 && pad <= len(p)-20; pad++ {
		d := p[20 : len(p)-pad]
		if bytes.Equal(sha(d), p[:20]) {
			return d, pad, nil
		}
	}
	return nil, 0, errors.New("temp: SHA-1 prefix does not match for any padding 0..15")
}

// LeftPad returns b left-padded with zeros to n bytes (b must not be longer).
func LeftPad(b []byte, n int) []byte {
	if len(b) >= n {
		return b[len(b)-n:]
	}
	return append(make([]byte, n-len(b)), b...)
}

// RSAPublic: c = m^e mod n as a 256-byte big-endian number.
func RSAPublic(m []byte, n *big.Int, e int) []byte {
	c := new(big.Int).Exp(new(big.Int).SetBytes(m), big.NewInt(int64(e)), n)
	return LeftPad(c.Bytes(), 256)
}

func RSAPrivate(c []byte, n, d *big.Int) []byte {
	m := new(big.Int).Exp(new(big.Int).SetBytes(c), d, n)
	return LeftPad(m.Bytes(), 256)
}

// TLBytes serialises a TL "bytes"/"string" value.
func TLBytes(b []byte) []byte {
	var out []byte
	if len(b) <= 253 {
		out = append(out, byte(len(b)))
	} else {
		out = append(out, 254, byte(len(b)), byte(len(b)>>8), byte(len(b)>>16))
	}
	out = append(out, b...)
	for len(out)%4 != 0 {
		out = append(out, 0)
	}
	return out
}

// Fingerprint = lower 64 bits of SHA1(TLBytes(n) | TLBytes(e)), as int64 little-endian.
func Fingerprint(n *big.Int, e int) int64 {
	h := sha(TLBytes(n.Bytes()), TLBytes(big.NewInt(int64(e)).Bytes()))
	return int64(binary.LittleEndian.Uint64(h[12:20]))
}

// NewNonceHash(n) = substr(SHA1(new_nonce | n | SHA1(auth_key)[0:8]), 4, 16)
func NewNonceHash(newNonce, authKey []byte, n byte) []byte {
	return sha(newNonce, []byte{n}, sha(authKey)[:8])[4:20]
}

// InitialSalt = new_nonce[0:8] xor server_nonce[0:8], read little-endian.
func InitialSalt(newNonce, serverNonce []byte) int64 {
	var s [8]byte
	for i := range s {
		s[i] = newNonce[i] ^ serverNonce[i]
	}
	return int64(binary.LittleEndian.Uint64(s[:]))
}

// DHPrime is the 2048-bit safe prime Telegram servers use (from the public documentation / tdlib).
var DHPrime, _ = new(big.Int).SetString("C71CAEB9C6B1C9048E6C522F70F13F73980D40238E3E21C14934D037563D930F48198A0AA7C14058229493D22530F4DBFA336F6E0AC925139543AED44CCE7C3720FD51F69458705AC68CD4FE6B6B13ABDC9746512969328454F18FAF8C595F642477FE96BB2A941D5BCD1D4AC8CC49880708FA9B378E3C4F3A9060BEE67CF9A4A4A695811051907E162753B56B0F6B410DBA74D8A84B2A14B3144E0EF1284754FD17ED950D5965B4B9DD46582DB1178D169C6BC465B0D6FF9CA3928FEF5B9AE4E418FC15E83EBEA0F87FA9FF5EED70050DED2849F47BF959D956850CE929851F0D8115F635B105EE2E4E15D04B2454BF6F4FADF034B10403119CD8E3B92FCC5B", 16)
