package mtp

import "testing"

func TestSelf(t *testing.T) {
	if err := SelfTest(); err != nil {
		t.Fatal(err)
	}
}
