package mtp

import (
	"bytes"
	"encoding/hex"
	"fmt"
)

// SelfTest: known-answer vectors (the AES-IGE test vectors published with OpenSSL's IGE paper, which
// core.telegram.org links to) and internal consistency.
func SelfTest() error {
	// OpenSSL IGE test vector 1 (AES-128 in the paper; here we use the structure with a 256-bit key
	// only for consistency checks) — so the known-answer part uses the AES-256 vector computed from the
	// definition with crypto/aes and cross-checked by decrypt(encrypt)=id below, plus the MTProto sample
	// from core.telegram.org/mtproto/samples-auth_key for the temp-key derivation.
	newNonce, _ := hex.DecodeString("311C85DB234AA2640AFC4A76A735CF5B1F0FD68BD17FA181E1229AD867CC024D")
	serverNonce, _ := hex.DecodeString("A5CF4D33F4A11EA877BA4AA573907330")
	k, iv := TempKeys(newNonce, serverNonce)
	if hex.EncodeToString(k) != "f011280887c7bb01df0fc4e17830e0b91fbb8be4b2267cb985ae25f33b527253" {
		return fmt.Errorf("temp key KAT failed: %x", k)
	}
	if hex.EncodeToString(iv) != "3212d579ee35452ed23e0d0c92841aa7d31b2e9bdef2151e80d15860311c85db" {
		return fmt.Errorf("temp iv KAT failed: %x", iv)
	}
	// OpenSSL's published AES-IGE test vector #1 (AES-128; the mode is independent of the key size)
	k1, _ := hex.DecodeString("000102030405060708090A0B0C0D0E0F")
	iv1, _ := hex.DecodeString("000102030405060708090A0B0C0D0E0F101112131415161718191A1B1C1D1E1F")
	c1, err := IGEEncrypt(k1, iv1, make([]byte, 32))
	if err != nil || hex.EncodeToString(c1) != "1a8519a6557be652e9da8e43da4ef4453cf456b4ca488aa383c79c98b34797cb" {
		return fmt.Errorf("IGE KAT #1 failed: %x %v", c1, err)
	}
	// vector #2
	k2 := []byte("This is an imple")
	iv2 := []byte("mentation of IGE mode for OpenSS")
	p2, _ := hex.DecodeString("99706487a1cde613bc6de0b6f24b1c7aa448c8b9c3403e3467a8cad89340f53b")
	c2, err := IGEEncrypt(k2, iv2, p2)
	if err != nil || hex.EncodeToString(c2) != "4c2e204c6574277320686f70652042656e20676f74206974207269676874210a" {
		return fmt.Errorf("IGE KAT #2 failed: %x %v", c2, err)
	}
	key := bytes.Repeat([]byte{7}, 32)
	ivv := bytes.Repeat([]byte{9}, 32)
	for n := 16; n <= 160; n += 16 {
		p := make([]byte, n)
		for i := range p {
			p[i] = byte(i * 31)
		}
		c, err := IGEEncrypt(key, ivv, p)
		if err != nil {
			return err
		}
		d, err := IGEDecrypt(key, ivv, c)
		if err != nil || !bytes.Equal(d, p) {
			return fmt.Errorf("ige roundtrip failed at %d", n)
		}
	}
	ak := make([]byte, 256)
	for i := range ak {
		ak[i] = byte(i*7 + 1)
	}
	for _, x := range []int{0, 8} {
		in := Inner{Salt: -5, Session: 77, MsgID: 0x5e0b700a00000001, SeqNo: 3, Body: []byte("hello world!")}
		pkt := Seal(ak, in, x, []byte{1, 2, 3, 4})
		out, err := Open(ak, pkt, x)
		if err != nil || out.Salt != in.Salt || out.Session != in.Session || out.MsgID != in.MsgID || out.SeqNo != in.SeqNo || !bytes.Equal(out.Body, in.Body) || out.PadLen != 4 {
			return fmt.Errorf("seal/open failed: %v %+v", err, out)
		}
		if _, err := Open(ak, pkt, 8-x); err == nil {
			return fmt.Errorf("opened with the wrong direction")
		}
	}
	return nil
}
