// Package link is the independent oracle for C20: it states, for a link assembled from known
// components, which result class the property demands, or that the property is silent (DontCare).
package link

import (
	"strings"
	"unicode"
)

type Kind int

const (
	Error Kind = iota
	User
	Join
	DontCare
)

func (k Kind) String() string { return [...]string{"error", "user", "join", "dontcare"}[k] }

var Reserved = []string{"telegram.me", "telegram.dog", "t.me", "tx.me", "telesco.pe"}

// Seg is one path segment: Raw as written in the link, Dec its percent-decoded form,
// Odd marks spellings the statement does not settle (escaped '/', invalid escapes).
type Seg struct {
	Raw, Dec string
	Odd      bool
}

type Parts struct {
	Scheme   string // "", "//", "http://", "https://", "tg://", "ftp://"
	Host     string
	Port     string // "" or ":443"
	Segs     []Seg
	Trailing bool   // a trailing "/" after the last segment (or after the host when there are no segments)
	Suffix   string // "", "?a=b", "#frag", "?a=b#frag"
}

func (p Parts) String() string {
	s := p.Scheme + p.Host + p.Port
	for _, g := range p.Segs {
		s += "/" + g.Raw
	}
	if p.Trailing {
		s += "/"
	}
	return s + p.Suffix
}

func isReserved(h string) bool {
	for _, r := range Reserved {
		if r == h {
			return true
		}
	}
	return false
}

// Expect returns the demanded class and value.
func Expect(p Parts) (Kind, string) {
	switch p.Scheme {
	case "", "http://", "https://", "//":
		// "//host/path" is the scheme-relative spelling: no scheme at all, and unlike "host:port/path" unambiguous
	default:
		return Error, "" // another scheme
	}
	if p.Scheme == "" && p.Port != "" {
		return DontCare, "" // "t.me:443/x" parses as scheme "t.me": the statement does not settle it
	}
	if !isReserved(p.Host) {
		if p.Host != "" && isReserved(strings.ToLower(p.Host)) {
			return DontCare, "" // host in upper/mixed case
		}
		if p.Scheme == "" && p.Host == "" {
			// scheme-less and host-less: the first segment takes the host position
			if len(p.Segs) > 0 || p.Trailing {
				// e.g. "/t.me/user" — a path, not a host; error is demanded unless it is odd
				for _, g := range p.Segs {
					if g.Odd {
						return DontCare, ""
					}
				}
				return Error, ""
			}
			return Error, ""
		}
		for _, g := range p.Segs {
			if g.Odd {
				return DontCare, ""
			}
		}
		return Error, "" // foreign host
	}
	for _, g := range p.Segs {
		if g.Odd {
			return DontCare, ""
		}
	}
	for _, g := range p.Segs {
		if g.Dec == "" {
			return DontCare, "" // doubled slash
		}
	}
	if len(p.Segs) == 0 {
		return Error, "" // bare host, with or without "/"
	}
	if p.Trailing {
		return DontCare, "" // trailing slash after a segment
	}
	switch {
	case len(p.Segs) == 1:
		return User, p.Segs[0].Dec
	case len(p.Segs) == 2 && p.Segs[0].Dec == "joinchat":
		return Join, p.Segs[1].Dec
	default:
		return Error, ""
	}
}

// UserMatches: the demanded username is the decoded segment lower-cased. For ASCII that is exact;
// for other scripts any case-folding-equal spelling without upper-case letters is accepted.
func UserMatches(got, dec string) bool {
	if got == strings.ToLower(dec) {
		return true
	}
	if !strings.EqualFold(got, dec) {
		return false
	}
	for _, r := range got {
		if r < 0x80 && unicode.IsUpper(r) {
			return false
		}
	}
	for _, r := range dec {
		if r >= 0x80 {
			return true
		}
	}
	return false
}
