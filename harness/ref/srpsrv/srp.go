// Package srpsrv is the server side of Telegram's SRP-2048 (core.telegram.org/api/srp), written
// independently: it holds only the verifier v and decides whether (A, M1) proves knowledge of the password.
package srpsrv

import (
	"bytes"
	"crypto/hmac"
	"crypto/sha256"
	"crypto/sha512"
	"encoding/binary"
	"errors"
	"math/big"
)

func H(parts ...[]byte) []byte {
	h := sha256.New()
	for _, p := range parts {
		h.Write(p)
	}
	return h.Sum(nil)
}

func SH(data, salt []byte) []byte { return H(salt, data, salt) }

// PBKDF2 with HMAC-SHA512, written out (RFC 8018 section 5.2).
func PBKDF2SHA512(password, salt []byte, iter, keyLen int) []byte {
	var out []byte
	for block := uint32(1); len(out) < keyLen; block++ {
		mac := hmac.New(sha512.New, password)
		mac.Write(salt)
		var be [4]byte
		binary.BigEndian.PutUint32(be[:], block)
		mac.Write(be[:])
		u := mac.Sum(nil)
		t := append([]byte{}, u...)
		for i := 1; i < iter; i++ {
			mac = hmac.New(sha512.New, password)
			mac.Write(u)
			u = mac.Sum(nil)
			for j := range t {
				t[j] ^= u[j]
			}
		}
		out = append(out, t...)
	}
	return out[:keyLen]
}

func Pad(b []byte) []byte {
	if len(b) >= 256 {
		return b[len(b)-256:]
	}
	return append(make([]byte, 256-len(b)), b...)
}

// X = PH2(password, salt1, salt2)
func X(password, salt1, salt2 []byte) *big.Int {
	ph1 := SH(SH(password, salt1), salt2)
	ph2 := SH(PBKDF2SHA512(ph1, salt1, 100000, 64), salt2)
	return new(big.Int).SetBytes(ph2)
}

type Server struct {
	P     *big.Int
	G     int
	Salt1 []byte
	Salt2 []byte
	V     *big.Int // verifier: the only thing derived from the password that the server keeps
	b     *big.Int
	B     *big.Int
}

func NewServer(p *big.Int, g int, salt1, salt2, password []byte) *Server {
	x := X(password, salt1, salt2)
	v := new(big.Int).Exp(big.NewInt(int64(g)), x, p)
	return &Server{P: p, G: g, Salt1: salt1, Salt2: salt2, V: v}
}

func (s *Server) k() *big.Int {
	return new(big.Int).SetBytes(H(Pad(s.P.Bytes()), Pad(big.NewInt(int64(s.G)).Bytes())))
}

// SetB fixes the server secret and returns B = (k*v + g^b) mod p.
func (s *Server) SetB(b *big.Int) *big.Int {
	s.b = b
	gb := new(big.Int).Exp(big.NewInt(int64(s.G)), b, s.P)
	kv := new(big.Int).Mul(s.k(), s.V)
	s.B = kv.Add(kv, gb).Mod(kv, s.P)
	return s.B
}

// S computes the server's view of the shared secret for a given A.
func (s *Server) S(A *big.Int) *big.Int {
	u := new(big.Int).SetBytes(H(Pad(A.Bytes()), Pad(s.B.Bytes())))
	vu := new(big.Int).Exp(s.V, u, s.P)
	t := vu.Mul(vu, A).Mod(vu, s.P)
	return t.Exp(t, s.b, s.P)
}

// Check decides whether (A, M1) is accepted.
func (s *Server) Check(Abytes, M1 []byte) error {
	if len(Abytes) != 256 {
		return errors.New("A is not 256 bytes")
	}
	A := new(big.Int).SetBytes(Abytes)
	if new(big.Int).Mod(A, s.P).Sign() == 0 {
		return errors.New("A mod p == 0")
	}
	K := H(Pad(s.S(A).Bytes()))
	hp := H(Pad(s.P.Bytes()))
	hg := H(Pad(big.NewInt(int64(s.G)).Bytes()))
	for i := range hp {
		hp[i] ^= hg[i]
	}
	want := H(hp, H(s.Salt1), H(s.Salt2), Pad(A.Bytes()), Pad(s.B.Bytes()), K)
	if !bytes.Equal(want, M1) {
		return errors.New("M1 mismatch")
	}
	return nil
}

// SafePrimeAllGenerators is a 2048-bit safe prime p = 2q+1 (p and q prime; checked independently with sympy) with
// p mod 8 = 7, p mod 3 = 2, p mod 5 = 4, p mod 7 = 3: every generator g in 2..7 passes the conditions Telegram's
// specification puts on (g, p). Found by cmd/safeprime. A server may choose such a group instead of the usual prime.
var SafePrimeAllGenerators, _ = new(big.Int).SetString("f496660ef8bc0e0915c3b1ad003b74b5d06ba6d0bcaf82761b6103dc6e12c56781e6edc061ef93a3e83e097831aebd523290cf9858c7c4b9e23f2bd7841ef59f95cc11c10da4d31bbc868b4612fbf3ea9eac877a314df15d45d2ddb9301e7c300d759460e75637b287464ea8ebd7060500d1eeddf64aaec71a0c24e1f74b9b8a3be30eece53d38a5375d3e728c0dc864cf08a070dc3828165ec07c951d167c7ecb04794b1c86261f1ceeb40823b850ffd98a6480c10771c1fbd399741bfee66104cfe9700face5800f6efc1527c9822bd04ee49e1482776dbe4180453251974325b6cf4653bc757932bbd105e1dbb8c15440333c515d48ab1534fa5e390abcef", 16)
