// Package rpcerr is the independent oracle for C17's text handling: the 15-row prefix/suffix table of
// the property and the zones (strict / don't-care) of parameter spellings.
package rpcerr

import (
	"strconv"
	"strings"
)

type Row struct{ Prefix, Suffix string }

var Rows = []Row{
	{"EMAIL_UNCONFIRMED_", ""}, {"FILE_MIGRATE_", ""}, {"FILE_PART_", "_MISSING"}, {"FLOOD_TEST_PHONE_WAIT_", ""},
	{"FLOOD_WAIT_", ""}, {"INTERDC_", "_CALL_ERROR"}, {"INTERDC_", "_CALL_RICH_ERROR"}, {"NETWORK_MIGRATE_", ""},
	{"PASSWORD_TOO_FRESH_", ""}, {"PHONE_MIGRATE_", ""}, {"SESSION_TOO_FRESH_", ""}, {"SLOWMODE_WAIT_", ""},
	{"STATS_MIGRATE_", ""}, {"TAKEOUT_INIT_DELAY_", ""}, {"USER_MIGRATE_", ""},
}

type Zone int

const (
	Plain      Zone = iota // no row applies: message is the raw text, no parameter
	Strict                 // a row applies and the parameter is a well-formed decimal fitting int
	DontCare               // a row applies but the spelling of the number is not settled by the statement (out of range, "+3", " 1")
	NonNumeric             // a row's prefix/suffix match but there is no number between them (absent, "abc", "%d"): nothing to
	// replace by X, so the message is the server's text and there is no parameter
)

type Expect struct {
	Zone    Zone
	Message string // for Strict: prefix+"X"+suffix ; for Plain: raw text
	Param   int
	XForms  []string // for DontCare: acceptable X-form messages besides the raw text
}

func isDecimal(s string) bool {
	if s == "" {
		return false
	}
	t := strings.TrimPrefix(s, "-")
	if t == "" {
		return false
	}
	for _, r := range t {
		if r < '0' || r > '9' {
			return false
		}
	}
	return true
}

func Classify(text string) Expect {
	var matches []Row
	for _, r := range Rows {
		if len(text) >= len(r.Prefix)+len(r.Suffix) && strings.HasPrefix(text, r.Prefix) && strings.HasSuffix(text, r.Suffix) {
			matches = append(matches, r)
		}
	}
	if len(matches) == 0 {
		return Expect{Zone: Plain, Message: text}
	}
	// a strict match: exactly one row whose middle is a decimal fitting int
	var strict []Expect
	var xforms []string
	for _, r := range matches {
		mid := text[len(r.Prefix) : len(text)-len(r.Suffix)]
		xforms = append(xforms, r.Prefix+"X"+r.Suffix)
		if isDecimal(mid) {
			if n, err := strconv.Atoi(mid); err == nil {
				strict = append(strict, Expect{Zone: Strict, Message: r.Prefix + "X" + r.Suffix, Param: n})
			}
		}
	}
	if len(strict) == 1 && len(matches) == 1 {
		return strict[0]
	}
	// no number at all between prefix and suffix in any matching row?
	numericish := false
	for _, r := range matches {
		mid := text[len(r.Prefix) : len(text)-len(r.Suffix)]
		t := strings.TrimSpace(mid)
		t = strings.TrimLeft(t, "+-")
		if t != "" && strings.Trim(t, "0123456789") == "" {
			numericish = true
		}
	}
	if !numericish {
		return Expect{Zone: NonNumeric, Message: text}
	}
	return Expect{Zone: DontCare, Message: text, XForms: xforms}
}
